#!/bin/sh
# Build the harness from files on disk only (offline).
cd "$(dirname "$0")" && exec ./harness/build.sh all
