#!/usr/bin/env python3
"""Regenerate /verif/MANIFEST.json from the table below (one entry per built check)."""
import json, os
V = os.path.dirname(os.path.dirname(os.path.abspath(__file__)))
props = [json.loads(l) for l in open(os.path.join(V, 'properties.jsonl'))]

MC = 'model_checking'
BUILT = {
 'C01': dict(technique='bounded exhaustive trace enumeration (viable-prefix DFS + full product + histories) of the reference parser model, every model trace replayed on the real library and compared',
             text='every token sequence up to the stated length over a schema-derived alphabet, for ~100 schemas x 3 context-flag sets, is executed on the real parser and its return code and complete tree dump are compared with a small reference parser; sequences of texts into one context likewise. Exhaustive within the bounds, nothing sampled.',
             note='trusted: the reference parser (mc/model.py RefParser), the driver cfgdrv and its dump; texts longer than the bound and layouts other than single blanks are outside this check', ref='5/C01'),
 'C02': dict(technique='bounded exhaustive enumeration of inputs (all byte strings over the scanner equivalence classes, all E1 token sequences, parameterised shape families, all sources) executed on the real library under ASan/UBSan with stdout capture',
             text='every byte string up to length 4 (5 thorough) over one representative per scanner equivalence class, under 5 flag sets, from buffer and stream; every E1 token sequence under 5 flag sets; shape families up to 10^4 (10^5 thorough) elements and the buffer boundaries; odd targets. Oracle: no signal, sanitizer report, exit, stdout byte; return code in range; context usable afterwards.',
             note='trusted: ASan/UBSan as detectors, the shim that intercepts exit/abort; uninitialised reads only via the MSan variant in the thorough tier; read errors on open streams are not injected', ref='5/C02'),
 'C03': dict(technique='bounded exhaustive enumeration of literals (full product over the content classes) against a hand-written reference scanner; every literal replayed on the real library',
             text='all quoted bodies up to length 4 (5-6 thorough) over 29 content classes in six literal templates under four environments, unquoted words, literals next to comments: decoded values and accept/reject compared with the reference scanner + parser.',
             note='trusted: mc/reflex.py; forms the statements leave open (NUL escapes, ${ inside a word, unterminated "..." ) are executed but not compared', ref='5/C03'),
 'C04': dict(technique='bounded exhaustive enumeration of tokens (full product over the numeral / boolean alphabets) x kind x route x prior errno against exact reference conversions; every conversion executed on the real library',
             text='all tokens up to length 5 (6 thorough) over a 15-symbol numeral alphabet and the boolean letter alphabet, for int/float/bool, through the parser, cfg_setopt and cfg_setmulti, with prior errno 0/ERANGE/EINVAL, plus boundary values around LONG_MIN/LONG_MAX/DBL_MAX in every radix: accepted iff well-formed and in range, exact value, rejection carries a diagnostic, verdict independent of errno.',
             note='trusted: Python int()/float() as exact reference; forms the statement leaves open (leading +, sign before a prefix, blanks, hex floats, inf/nan, denormals) are executed but not compared', ref='5/C04'),
 'C06': dict(technique='bounded exhaustive trace enumeration (E1 token sequences x all placements of <= d non-default separators x included-file variants) against the reference scanner/parser; every trace replayed on the real library and its diagnostics compared',
             text='every E1 token sequence (11 schemas incl. free-form and single sections, undeclared names, multi-line string tokens) with every placement of up to 2 non-default separators (newlines, # // /* */ comments, two-line comment) and the same texts inside / after included files of depth 1-2: rc 1 implies a diagnostic whose context names the expected file and the line on which the offending token ends; an accepted parse emits none.',
             note='trusted: reflex/RefParser line bookkeeping; for errors that concern a whole item any line of the item is accepted; callbacks that fail silently are out of scope', ref='5/C06'),
 'C07': dict(technique='bounded exhaustive enumeration of abort points (E1 viable-prefix DFS = every cut / corruption position, E2 product, included-file placements) and breadth-first search over API call sequences, with a resource-balance invariant evaluated after cfg_free in every explored execution',
             text='every token-level cut or corruption point of every E1 text over schemas with pointer values + release callback, function arguments, annotations, search path, and inside included files; plus a BFS over ~70 API calls (search path set, annotations, pointer options). After cfg_free: zero live library blocks (leak site reported), zero open FILEs, descriptor count restored, every pointer value released exactly once, no foreign or double release, ASan silent.',
             note='trusted: the allocation registry behind the shim (counts every malloc/strdup/fopen of the library), ASan for use-after-free / double free; LeakSanitizer is not used', ref='5/C07'),
 'C09': dict(technique='explicit-state breadth-first search over the real transition function (one real API call per transition, state = history replayed on a fresh context, dedup on the canonical dump) compared with an abstract store model on every transition',
             text='BFS to depth 3 (5 thorough) over 65 API calls (scalar/indexed setters, list set/append, bulk set good/bad, titled-section add, section remove by index/title/path, nested targets, wrong type, illegal index, unknown name, annotation, set-from-text) from four start states; return value, sizes, values, titles and MODIFIED are compared with the reference store after every call.',
             note='trusted: mc/refstore.py; dedup on the full dump is sound because a context\'s future depends only on values, flags and annotations; lists capped at 4 values, sections at 3 instances', ref='5/C09'),
 'C10': dict(technique='bounded exhaustive enumeration of (option state reached by <= 3 builder operations) x (refusing call) x (position of the offending element) on the real library with a before/after snapshot invariant',
             text='for 10 options (scalar, list, no-default, section) every state built by up to 3 (4 thorough) API calls / parses x every refusing call (bulk set with the bad element at each position, veto by the pre-set callback incl. list indices, wrong type, illegal index, existing / missing section, unconvertible or out-of-range text): the call fails and the raw snapshot (count, values, order, annotation, RESET, MODIFIED) is identical.',
             note='trusted: the driver\'s raw snapshot of the public cfg_opt_t fields', ref='5/C10'),
 'C08': dict(technique='explicit-state breadth-first search over process histories (events = parses of every abort kind, re-init, context switch); every (history, probe) pair executed in its own fresh process on the real library; invariant = probe outcomes equal their fresh-process outcomes',
             text='BFS to depth 3 (6 thorough) over 22 event kinds (accepted parse; aborts by syntax error, text ending inside a double/single-quoted string or a comment, bad escape, range failure, failure inside an included file at depth 1/2, self-include, missing / directory include; each through buffer and file; free + re-init; switching between two live contexts). In every state: scanner globals pristine, four probes into a fresh context equal their fresh-process result (return code, values, diagnostics incl. a full-depth include), probes into the live contexts equal the run of the same history without the aborted events.',
             note='trusted: the scanner peek (same translation unit as the generated lexer); aborted events are chosen to store nothing before failing; dedup key = scanner globals + full dumps of both contexts', ref='5/C08'),
 'C11': dict(technique='bounded exhaustive enumeration of path strings (every option x every qualifier form per step, systematically broken variants with <= 2 defects, all short strings over the path alphabet) against a reference path resolver; each path replayed on the real library through five accessors',
             text='six trees (single, multi, titled, nested depth 3, case-insensitive, digit names; titles with blanks, quotes, separators, backslashes): every path form and every variant with one or two injected defects, and all strings up to length 5 (6) over {a m | = quote backslash 0 1}; cfg_getopt / cfg_getsec must return exactly the object reached by stepwise navigation (pointer identity via the stepwise address), typed getter and size agree, the by-path setter and cfg_rmsec change exactly that target, unresolvable paths fail, terminate and change nothing.',
             note='trusted: mc/refpath.py; UNSPEC forms (duplicated inner separators, non-decimal indices, empty quoted title, text glued to a closing quote) are executed but not compared', ref='5/C11'),
 'C12': dict(technique='bounded exhaustive enumeration (base text x insertion point at every depth x unknown item from a recursive generator, singly and in pairs, plus a nesting-depth family) with a metamorphic oracle checked against the reference parser; every text replayed on the real library with and without the flag',
             text='9 accepted base texts on a nested schema x every item boundary (before each item, end of each section body, end of text) x ~1700 well-formed unknown items (assignment, list, append, call, plain/titled sections nested to depth 2, 3 thorough; inner names include declared names with unconvertible values) and pairs; unknown sections nested 1..10, 10^2..10^4 (10^5 thorough) deep. With the flag: same return code and dump as the base text, no diagnostic; without: rejected with a diagnostic.',
             note='trusted: RefParser for the base texts and for the well-formedness of generated items (self-check at start)', ref='5/C12'),
 'C13': dict(technique='bounded exhaustive enumeration of include trees (every contiguous run of items moved into a file, recursively; chains of every depth up to limit+2; every placement; error injected at every file and after every return; fail^k histories) against the reference parser with a file model; every configuration replayed on the real library',
             text='236 accepted texts of <= 4 items x every contiguous run moved into an include file (recursively to depth 2, 4 thorough) x 5 placements (relative, absolute, search-path directory 1 / 2, absolute with a search path) x an error at the end / start of each file and after each include returns; chains of depth 1..12 (limit 10); missing / directory / self / mutual / wrong-arity targets; k = 0..12 failing includes of 7 kinds followed by a succeeding one and a full-depth chain. Dump equals the flat text; diagnostics name the right file and line on both sides; failures are reported errors; include stack, FILEs and descriptors are back afterwards.',
             note='trusted: reftext.Files (include == tokens spliced in place); fixture files live under /verif/build/fx and are wiped per case', ref='5/C13'),
 'C14': dict(technique='bounded exhaustive enumeration (128 callback-placement variants of a schema x E1 token sequences x index k of the failing invocation, k = 0..K) against the reference parser\'s callback trace; every case replayed on the real library and its invocation log compared',
             text='a scalar / list / section-with-child / function schema with every subset of the 7 parse / validate callback slots x every E1 token sequence up to N=6 (7 thorough) x the k-th invocation failing: the log of parse and function callbacks equals the reference trace exactly (option, decoded text or argument vector, order, once each), validation calls follow every stored value and see it (repeats collapsed), stored values are the callback\'s, a failing invocation fails the parse there with nothing logged after it and no later item applied; by-name setters x {pass, veto, rewrite} of the pre-set callback.',
             note='trusted: the driver\'s callbacks and their log; defaults are converted (and logged) inside cfg_init and are cut off the compared log', ref='5/C14'),
 'C15': dict(technique='bounded exhaustive enumeration (E1 token sequences x every token boundary x 15 comment / white-space forms x annotation flag, one or two insertions) with a metamorphic oracle backed by the reference scanner/parser; every text replayed on the real library',
             text='every accepted or rejected E1 text (8 schemas) with one (two) comment(s) or white space inserted at every token boundary incl. both ends, annotation support off and on: return code and dump are those of the un-commented text; with support on a comment immediately in front of a scalar or braced non-empty list assignment is returned by the comment getter, appears in the print, and survives print -> parse.',
             note='trusted: reflex comment rules; only the positive annotation rule of the statement is asserted', ref='5/C15'),
 'C16': dict(technique='bounded exhaustive enumeration: (a) schema x workload run with the declarations alive and with them poisoned and freed, compared; (b) all interleavings of two operation streams (<= 2 ops quick, 3 thorough) on two contexts / two section instances, each side compared with its solo run; all on the real library under ASan',
             text='(a) 101 schemas x workloads that create three instances of every (nested) multi section, and every E1 text up to N=4 (6), after the declaration arrays and all their strings were overwritten with 0xDD and freed: identical observations, ASan silent, declarations never written by the library (checksum); (b) every pair of operation streams (parse, set, append, annotate, register validation callback, add free-form key, add titled section, set print callback) in every interleaving on two contexts from the same declarations and on two instances of one multi section: each ends up exactly as in its solo run.',
             note='trusted: ASan for accesses to freed declarations; "simple" options are excluded from (b) by design of the library', ref='5/C16'),
 'C17': dict(technique='bounded exhaustive enumeration (search-path sequences x file layouts x name forms x API x heap fill byte) against a reference resolver; every lookup replayed on the real library over a real fixture directory and a passwd seam',
             text='every sequence of <= 3 search-path entries over {d1, d2, missing, d1 again, ~/d3, ~alice/d4} x 81 layouts of f.conf in the four directories (absent / regular file with a marker / directory) x 16 name forms (relative, sub-directory, absolute existing / missing / directory, ~, ~/x, ~user, ~user/x, ~nouser/x, empty, prefix-of-a-user) through cfg_searchpath, cfg_tilde_expand, cfg_parse and include(), with fresh heap memory pre-filled with 0x00 / 0xBE / 0xFF (MSan pass in the thorough tier): first directory in order of addition containing a regular file, absolute names bypass the list, directories and missing files never match, results fresh, independent of the fill byte.',
             note='trusted: the passwd seam (getpwnam/getpwuid answered from a table), real stat() on fixture files under /verif/build/fx', ref='5/C17'),
}

checks = []
for p in props:
    pid = p['id']
    if pid not in BUILT:
        continue
    b = BUILT[pid]
    checks.append({
        'property_id': pid,
        'quick_cmd': './vcheck %s --tier quick' % pid,
        'thorough_cmd': './vcheck %s --tier thorough' % pid,
        'evidence_file': 'evidence/%s.json' % pid,
        'replay_cmd_template': './vcheck %s --replay {path}' % pid,
        'engine': 'cfgdrv+explorer',
        'level_claimed': {'category': b.get('level', MC), 'text': b['text'], 'design_ref': 'DESIGN.md section ' + b['ref']},
        'level_note': b['note'],
        'technique': b['technique'],
    })
m = {
 'version': 1,
 'setup_cmd': './setup.sh',
 'hooks': {'guard': 'LIBCONFUSE_VERIF',
           'enable': 'no source hooks are needed: every check compiles /repo/src/confuse.c and a freshly generated scanner (flex /repo/src/lexer.l) with a force-included shim header (harness/vf_shim.h); the guard name is reserved and unused',
           'baseline_off_cmd': 'make -C /repo check', 'source_commits': [], 'add_only': True},
 'engines': [{'name': 'cfgdrv+explorer', 'path': 'harness/cfgdrv.c, mc/engine.py',
              'serves_properties': sorted(BUILT), 'kind_free_text': 'C driver interpreting case scripts against the real library (ASan/UBSan build from /repo working tree) + Python explorers that enumerate bounded spaces exhaustively and compare with reference models'}],
 'checks': checks,
 'notes': 'See DESIGN.md. Quick tier: VERIF_DEADLINE_S (default 100 s) bounds every check; bounds are iterated smallest first and the evidence records which were completed.',
 'not_applicable': [{'property_id': p['id'], 'reason': 'check not built yet (planned: DESIGN.md section 5); nothing is claimed for this property'} for p in props if p['id'] not in BUILT],
}
json.dump(m, open(os.path.join(V, 'MANIFEST.json'), 'w'), indent=1)
print('checks:', [c['property_id'] for c in checks])
