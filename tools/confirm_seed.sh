#!/bin/sh
# confirm_seed.sh <id> <dir with patch.diff demo.c notes.txt> [asan]
# Independently confirms a seeded change in a fresh scratch worktree of /repo (HEAD):
#   demo passes on the unchanged tree; with the patch: make check passes, demo fails.
# Prints a JSON fragment for meta.json.  The scratch worktree is removed afterwards.
id="$1"; src="$2"; mode="${3:-plain}"
wt="/tmp/cf_$id"
/verif/tools/mkworktree.sh "$wt" >/dev/null 2>&1
cd "$wt" || exit 2
mkdir -p "$wt/mutant/tmp"
build_demo() {
  if [ "$mode" = asan ]; then
    gcc -g -fsanitize=address -I src -I . -DHAVE_CONFIG_H '-DLOCALEDIR="/usr/local/share/locale"' "$src/demo.c" src/confuse.c src/lexer.c -o /tmp/cf_demo_$id 2>/tmp/cf_build_$id.log
  else
    gcc -g -I src -I . "$src/demo.c" src/.libs/libconfuse.a -o /tmp/cf_demo_$id 2>/tmp/cf_build_$id.log
  fi
}
build_demo || { echo "demo does not build on the unchanged tree"; cat /tmp/cf_build_$id.log | head; }
(cd "$wt" && /tmp/cf_demo_$id >/tmp/cf_out0_$id.log 2>&1); rc0=$?
git apply "$src/patch.diff" || { echo "patch does not apply"; }
make >/dev/null 2>&1
tests=$(make check 2>&1 | grep -E "^# (PASS|FAIL|ERROR)" | tr '\n' ' ')
build_demo
(cd "$wt" && /tmp/cf_demo_$id >/tmp/cf_out1_$id.log 2>&1); rc1=$?
echo "{\"id\": \"$id\", \"demo_exit_unchanged\": $rc0, \"demo_exit_with_patch\": $rc1, \"make_check_with_patch\": \"$tests\"}"
tail -3 /tmp/cf_out1_$id.log | cut -c1-200
cd /; git -C /repo worktree remove --force "$wt"; rm -f /tmp/cf_demo_$id /tmp/cf_out?_$id.log /tmp/cf_build_$id.log
