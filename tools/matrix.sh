#!/bin/sh
# matrix.sh [seeded dirs...] - run EVERY quick check against every seeded change (scratch worktrees; /repo untouched)
# and write seeded/<name>/caught.txt: one line per check that raised a violation.
cd "$(dirname "$0")/.."
dirs="$*"
[ -n "$dirs" ] || dirs=$(ls -d seeded/*/)
for d in $dirs; do
  d=${d%/}
  out=$(VERIF_DEADLINE_S=${VERIF_DEADLINE_S:-100} ./tools/try_patch.sh "$d/patch.diff" 2>&1)
  echo "$out" | grep "rc=1" | cut -c1-200 > "$d/caught.txt"
  echo "$d: $(echo "$out" | grep -c 'rc=1') checks raise a violation: $(echo "$out" | grep 'rc=1' | cut -d' ' -f1 | tr '\n' ' ')"
done
