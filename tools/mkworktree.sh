#!/bin/sh
# mkworktree.sh <dir> - scratch git worktree of /repo at HEAD with a working autotools build
set -e
d="$1"
(flock 9; git -C /repo worktree add -f --detach "$d" HEAD >/dev/null 2>&1) 9>/tmp/.wtlock
# generated, git-ignored build infrastructure (configure, Makefile.in, ...) comes from /repo
rsync -a --exclude .git --exclude '*.o' --exclude '*.lo' --exclude '*.la' --exclude '.libs' --exclude '.deps' /repo/ "$d"/
cd "$d"
git checkout -- . >/dev/null 2>&1
(make distclean >/dev/null 2>&1 || true)
./configure >/dev/null 2>&1
make >/dev/null 2>&1
make check 2>&1 | grep -E "^# (PASS|FAIL|ERROR)" | tr '\n' ' '
echo
