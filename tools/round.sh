#!/bin/bash
# round.sh <round id, e.g. r12> [letters]  - for every finished sub-agent worktree /tmp/wt_<round><L> with a mutant/ directory:
# confirm the seeded change in a fresh scratch worktree (demo passes unchanged, make check passes + demo fails with the patch)
# and run the quick check of the target property (taken from /tmp/tasks/<round><L>.txt) against it.  One line per letter.
rnd="$1"; shift
letters="${*:-A B C D E F G H I J}"
cd "$(dirname "$0")/.."
one() {
  L=$1; src=/tmp/wt_$rnd$L/mutant
  [ -f $src/patch.diff ] || { echo "$L: no patch yet"; return; }
  pid=$(grep -o 'prop_C[0-9]*' /tmp/tasks/$rnd$L.txt | head -1 | sed 's/prop_//')
  wt=/tmp/cf_$rnd$L
  ./tools/mkworktree.sh $wt >/dev/null 2>&1
  ( cd $wt && mkdir -p mutant/tmp && cp $src/demo.c mutant/ && { [ -f $src/build.sh ] && sed "s|/tmp/wt_$rnd$L|$wt|g" $src/build.sh > mutant/build.sh; true; }
    bld() { if [ -f mutant/build.sh ]; then sh mutant/build.sh >/dev/null 2>&1; else gcc -g -I src -I . mutant/demo.c src/.libs/libconfuse.a -o mutant/demo >/dev/null 2>&1; fi; }
    bld; ./mutant/demo >/dev/null 2>&1; rc0=$?
    git apply $src/patch.diff 2>/dev/null || echo "patch does not apply"
    make >/dev/null 2>&1; t=$(make check 2>&1 | grep -E "^# (PASS|FAIL)" | tr -d '\n# ' )
    bld; ./mutant/demo >/dev/null 2>&1; rc1=$?
    echo "demo $rc0->$rc1 tests $t" > /tmp/cf_$rnd$L.res )
  git -C /repo worktree remove --force $wt >/dev/null 2>&1
  chk=$(./tools/try_patch.sh $src/patch.diff $pid 2>&1 | grep "^$pid rc=" | cut -c1-150)
  echo "$L $pid: $(cat /tmp/cf_$rnd$L.res) | $chk"
}
for L in $letters; do one $L & 
  # at most 4 at a time
  while [ $(jobs -r | wc -l) -ge 4 ]; do sleep 2; done
done
wait
