#!/usr/bin/env python3
"""print the replay files of a property in readable form"""
import sys, os, glob, urllib.parse
pid = sys.argv[1]
for f in sorted(glob.glob('/verif/replays/%s/*.case' % pid))[:int(sys.argv[2]) if len(sys.argv) > 2 else 30]:
    L = open(f).read().split('\n')
    kind = [l for l in L if l.startswith('# kind')]
    print('==', os.path.basename(f), kind[0] if kind else '')
    for l in L:
        if l.startswith('#') and not (l.startswith('# expected') or l.startswith('# observed')): continue
        if l.startswith('schema'): continue
        print('   ', urllib.parse.unquote(l)[:300].replace('\n', '\\n'))
