#!/bin/sh
# reseed.sh [jobs] - regression run: every seeded change against the quick check of the property it breaks
# (scratch worktrees via try_patch.sh; /repo and evidence untouched).  Writes seeded/REGRESSION.txt.
cd "$(dirname "$0")/.."
jobs=${1:-2}
out=${REGRESSION_OUT:-seeded/REGRESSION.txt}
tmp=$(mktemp -d /tmp/reseed.XXXXXX)
ls -d seeded/*/ | while read d; do
  d=${d%/}
  id=$(python3 -c "import json;m=json.load(open('$d/meta.json'));print('-' if m.get('obsolete') else m.get('regression_check', m['breaks_property']))")
  [ "$id" = "-" ] || echo "$d $id"
done > $tmp/list
xargs -P $jobs -L 1 sh -c 'd=$0; id=$1; r=$(./tools/try_patch.sh "$d/patch.diff" $id 2>&1 | grep "^$id rc=" | cut -c1-160); echo "$(basename $d): $r"' < $tmp/list > $tmp/res
{ echo "# every seeded change against the quick check of its property, $(date -u +%Y-%m-%dT%H:%MZ), /verif $(git rev-parse --short HEAD), /repo $(git -C /repo rev-parse --short HEAD)"; sort $tmp/res; } > $out
echo "caught: $(grep -c 'rc=1' $out) of $(wc -l < $tmp/list); not caught:"; grep -v 'rc=1' $out | grep -v '^#'
rm -rf $tmp
