#!/bin/sh
# run every registered quick (or $1) check and print one line each
cd "$(dirname "$0")/.."
tier="${1:-quick}"
for id in $(python3 -c "import json;print(' '.join(c['property_id'] for c in json.load(open('MANIFEST.json'))['checks']))"); do
  start=$(date +%s)
  ./vcheck $id --tier $tier > build/runall.$id.log 2>&1
  rc=$?
  echo "$id rc=$rc $(($(date +%s)-start))s $(grep -c '^VIOLATION' build/runall.$id.log) violations; $(grep -m1 "^$id tier" build/runall.$id.log | cut -c1-150)"
done
