#!/bin/sh
# coverage.sh - run every quick check against a gcov build of the library and report the lines of
# confuse.c / lexer.l that no check executes (a map of what the enumerations never reach).
cd "$(dirname "$0")/.."
./harness/build.sh cov
find build/cov/obj -name '*.gcda' -delete
export VERIF_VARIANT_ASAN=cov VERIF_OUT=/tmp/covout VERIF_DEADLINE_S=${VERIF_DEADLINE_S:-60}
for id in $(python3 -c "import json;print(' '.join(c['property_id'] for c in json.load(open('MANIFEST.json'))['checks']))"); do
  ./vcheck $id --tier quick > /tmp/covout.$id.log 2>&1
  echo "$id rc=$? $(grep -c '^VIOLATION' /tmp/covout.$id.log)"
done
cd build/cov/obj && gcov -b confuse.o lexer.o > /tmp/gcov.summary 2>&1
grep -A3 "File '.*confuse.c'\|File '.*lexer.l'" /tmp/gcov.summary
