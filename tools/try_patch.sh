#!/bin/sh
# try_patch.sh <patch.diff> [check ids...]  - apply a change to /repo, run the quick checks, undo it.
# Prints, per check, whether it raised a violation.  /repo is always restored.
set -u
patch="$1"; shift
cd /verif
git -C /repo diff --quiet || { echo "/repo has local changes"; exit 2; }
git -C /repo apply "$patch" || { echo "patch does not apply"; exit 2; }
rm -rf build/evidence.bak; cp -a evidence build/evidence.bak
trap 'git -C /repo checkout -- . ; (cd /repo && make >/dev/null 2>&1); rm -rf /verif/evidence; cp -a /verif/build/evidence.bak /verif/evidence' EXIT
(cd /repo && make >/dev/null 2>&1 && make check 2>&1 | grep -E "^# (PASS|FAIL|ERROR)" | tr '\n' ' '); echo
ids="$*"
[ -n "$ids" ] || ids=$(python3 -c "import json;print(' '.join(c['property_id'] for c in json.load(open('MANIFEST.json'))['checks']))")
for id in $ids; do
  VERIF_DEADLINE_S=${VERIF_DEADLINE_S:-100} ./vcheck $id --tier quick > build/try.$id.log 2>&1
  rc=$?
  echo "$id rc=$rc violations=$(grep -c '^VIOLATION' build/try.$id.log) $(grep '^  kind' build/try.$id.log | head -3 | tr '\n' ';')"
done
