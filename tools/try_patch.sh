#!/bin/sh
# try_patch.sh <patch.diff> [check ids...]  - run quick checks against a scratch worktree of /repo with the patch applied.
# Neither /repo nor /verif/evidence is touched (VERIF_REPO / VERIF_BUILD / VERIF_OUT point into the scratch tree).
set -u
patch="$(readlink -f "$1")"; shift
wt="/tmp/tp_$$"
(flock 9; git -C /repo worktree add -f --detach "$wt" HEAD >/dev/null 2>&1) 9>/tmp/.wtlock || { echo "cannot create worktree"; exit 2; }
trap 'git -C /repo worktree remove --force "$wt" >/dev/null 2>&1; rm -rf "$wt"' EXIT
git -C "$wt" apply "$patch" || { echo "patch does not apply to HEAD"; exit 2; }
cd /verif
ids="$*"
[ -n "$ids" ] || ids=$(python3 -c "import json;print(' '.join(c['property_id'] for c in json.load(open('MANIFEST.json'))['checks']))")
export VERIF_REPO="$wt" VERIF_BUILD="$wt/vbuild" VERIF_OUT="$wt/vout"
for id in $ids; do
  VERIF_DEADLINE_S=${VERIF_DEADLINE_S:-100} ./vcheck $id --tier ${TIER:-quick} > "$wt/try.$id.log" 2>&1
  rc=$?
  echo "$id rc=$rc violations=$(grep -c '^VIOLATION' "$wt/try.$id.log") $(grep '^  kind' "$wt/try.$id.log" | head -3 | tr '\n' ';')"
done
