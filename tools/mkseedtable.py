#!/usr/bin/env python3
"""mkseedtable.py - regenerate the table of seeded changes in DESIGN.md section 10 from seeded/*/meta.json"""
import json, os, glob, re
root = os.path.dirname(os.path.dirname(os.path.abspath(__file__)))
rows = ['| seeded change | what was changed | what it needs to manifest | caught by |', '|---|---|---|---|']
for d in sorted(glob.glob(root + '/seeded/*/')):
    m = json.load(open(d + 'meta.json'))
    star = '*' if m.get('check_strengthened_because_of_it') else ''
    caught = '; '.join('%s%s: %s' % (k, star, v) for k, v in m['caught_by'].items())
    if m.get('obsolete'):
        caught += ' - OBSOLETE: ' + m['obsolete']
    rows.append('| `%s` | %s | %s | %s |' % (os.path.basename(d.rstrip('/')), m['change'], m['needs_to_manifest'], caught))
p = root + '/DESIGN.md'
s = open(p).read()
a = s.index('| seeded change | what was changed')
b = s.index('\n\n', a)
s = s[:a] + '\n'.join(rows) + s[b:]
open(p, 'w').write(s)
print(len(rows) - 2, 'rows')
