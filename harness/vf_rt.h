/* vf_rt.h - interface between the verification runtime and the driver */
#ifndef VF_RT_H
#define VF_RT_H
#include <stddef.h>
#include <stdio.h>

#define VF_CLASS_LIB  0   /* allocation issued by confuse.c: "library source proper" */
#define VF_CLASS_SCAN 1   /* allocation issued from the scanner file (lexer.l / generated) */

struct vf_block {
	void *addr;
	size_t size;
	const char *file, *func;
	int line;
	int cls;
	unsigned long serial;
};

/* counters since vf_rt_reset_counters() */
extern unsigned long vf_req[2];        /* allocation requests per class */
extern unsigned long vf_fail_at;       /* 0 = off; else: the k-th LIB request from now fails */
extern unsigned long vf_fail_at2;      /* second failing request (pairs), 0 = off */
extern unsigned long vf_fail_count;    /* LIB requests seen since fail_at was armed */
extern unsigned long vf_failed;        /* number of injected failures that happened */
extern const char   *vf_failed_site;   /* site of the last injected failure */
extern int vf_fill;                    /* -1 off; else byte used to pre-fill fresh malloc/realloc memory */
extern unsigned long vf_foreign_free;  /* free() of a pointer the registry does not know */
extern unsigned long vf_double_close;
extern int vf_exit_code;               /* set by vf_exit before terminating */

void   vf_rt_reset_counters(void);
size_t vf_live_blocks(int cls);
size_t vf_live_files(void);
/* iterate live blocks; returns number written */
size_t vf_list_blocks(struct vf_block *out, size_t max);
void   vf_arm_fail(unsigned long k, unsigned long k2);

/* passwd seam */
void vf_pw_clear(void);
void vf_pw_add(const char *user, const char *home);
void vf_pw_me(const char *user);
void vf_pw_real(int on);

/* hook the driver provides: called when the library calls exit()/abort() */
void vf_drv_on_exit(const char *what, int code, const char *file, const char *func, int line);

/* scanner peek, implemented in vf_lexpeek.c inside the lexer translation unit */
struct vf_lexsnap {
	int yy_start, yy_init, has_buffer, stack_top, inc_ptr, have_q;
	unsigned long q_index, q_len;
};
void vf_lex_snapshot(struct vf_lexsnap *s);
#endif
