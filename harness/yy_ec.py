#!/usr/bin/env python3
"""Extract flex's byte equivalence classes (yy_ec[256]) from the generated scanner.
Output: JSON {"classes": {class_number: [bytes...]}}"""
import sys, re, json
src = open(sys.argv[1]).read()
m = re.search(r'yy_ec\[256\]\s*=\s*\{(.*?)\}\s*;', src, re.S)
if not m:
    print(json.dumps({"classes": {}}))
    sys.exit(0)
nums = [int(x) for x in re.findall(r'-?\d+', m.group(1))]
assert len(nums) == 256, len(nums)
classes = {}
for b, c in enumerate(nums):
    classes.setdefault(str(c), []).append(b)
print(json.dumps({"classes": classes}))
