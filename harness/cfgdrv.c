/*
 * cfgdrv.c - one interpreter for all property checks.
 *
 * Reads case scripts on stdin, executes them against the real libConfuse
 * (built from /repo's working tree with vf_shim.h force-included) and writes
 * observations to the protocol stream (the original fd 1; fd 1 itself is
 * redirected to a memfd so that anything the library writes to stdout is
 * caught).  See DESIGN.md section 3.3 and mc/engine.py for the protocol.
 *
 * Tokens are separated by single spaces.  A string token is ':' followed by
 * the percent-encoded bytes, or '~' for NULL.
 */
#define _GNU_SOURCE
#include <stdio.h>
#include <math.h>
#include <limits.h>
#include <stdlib.h>
#include <string.h>
#include <stdarg.h>
#include <errno.h>
#include <unistd.h>
#include <fcntl.h>
#include <dirent.h>
#include <signal.h>
#include <ctype.h>
#include <sys/mman.h>
#include <sys/stat.h>
#include <sys/wait.h>
#include <sys/resource.h>
#include "confuse.h"
#include "vf_rt.h"

/* shim entry points the driver needs for memory the library handed over */
void vf_free(void *p, const char *file, const char *func, int line);

static FILE *out;		/* protocol stream */
static int stdout_memfd = -1;
static int unbuffered;

/* ------------------------------------------------------------------ */
/* small utilities                                                     */

static void die(const char *fmt, ...)
{
	va_list ap;
	va_start(ap, fmt);
	fprintf(stderr, "cfgdrv: ");
	vfprintf(stderr, fmt, ap);
	fprintf(stderr, "\n");
	va_end(ap);
	if (out) { fprintf(out, "drverror\n"); fflush(out); }
	_exit(99);
}

static void *xmalloc(size_t n) { void *p = malloc(n ? n : 1); if (!p) die("oom"); return p; }
static char *xstrdup(const char *s) { char *p = strdup(s); if (!p) die("oom"); return p; }

static int hexv(int c)
{
	if (c >= '0' && c <= '9') return c - '0';
	if (c >= 'a' && c <= 'f') return c - 'a' + 10;
	if (c >= 'A' && c <= 'F') return c - 'A' + 10;
	return -1;
}

/* decode a string token; returns malloc'd buffer (NUL terminated) or NULL for '~';
 * *lenp receives the decoded length (may contain NUL bytes) */
static char *dec(const char *tok, size_t *lenp)
{
	size_t n = 0;
	char *r;
	if (!tok) die("missing string token");
	if (tok[0] == '~' && !tok[1]) { if (lenp) *lenp = 0; return NULL; }
	if (tok[0] != ':') die("bad string token '%s'", tok);
	tok++;
	r = xmalloc(strlen(tok) + 1);
	while (*tok) {
		if (*tok == '%') {
			int a = hexv(tok[1]), b = a < 0 ? -1 : hexv(tok[2]);
			if (b < 0) die("bad escape in token");
			r[n++] = (char)(a * 16 + b);
			tok += 3;
		} else
			r[n++] = *tok++;
	}
	r[n] = 0;
	if (lenp) *lenp = n;
	return r;
}

static int safe_char(unsigned char c)
{
	return isalnum(c) || c == '_' || c == '-';
}

static void enc_n(FILE *fp, const char *s, size_t n)
{
	size_t i;
	if (!s) { fputc('~', fp); return; }
	fputc(':', fp);
	for (i = 0; i < n; i++) {
		unsigned char c = (unsigned char)s[i];
		if (safe_char(c)) fputc(c, fp);
		else fprintf(fp, "%%%02X", c);
	}
}
static void enc(FILE *fp, const char *s) { enc_n(fp, s, s ? strlen(s) : 0); }

/* ------------------------------------------------------------------ */
/* schemas                                                             */

#define MAXSCHEMA 128
/* the caller's variable behind a 'simple' option: a heap block of exactly the size of the C type the CFG_SIMPLE_* macro takes
 * (long, double, cfg_bool_t, char *), so that a store through a wider member shows under ASan */
struct simple_slot { cfg_type_t type; void *mem; size_t size; struct simple_slot *next; };
struct schema {
	char id[24];
	cfg_opt_t *opts;
	int freed;
	unsigned long sum;
	struct simple_slot *slots;
};
static struct schema schemas[MAXSCHEMA];
static int nschemas;

/* callbacks, defined below */
static int cb_parse(cfg_t *cfg, cfg_opt_t *opt, const char *value, void *result);
static int cb_valid(cfg_t *cfg, cfg_opt_t *opt);
static int cb_valid2(cfg_t *cfg, cfg_opt_t *opt, void *value);
static int cb_func(cfg_t *cfg, cfg_opt_t *opt, int argc, const char **argv);
static void cb_print(cfg_opt_t *opt, unsigned int index, FILE *fp);
static void cb_freeptr(void *p);

static void cmd_schema(char **toks, int ntok);
static struct schema *find_schema(const char *id)
{
	int i;
	for (i = 0; i < nschemas; i++)
		if (strcmp(schemas[i].id, id) == 0) return &schemas[i];
	return NULL;
}

static int decl_comment;	/* set by flag letter A: the declaration itself carries an annotation */

static cfg_flag_t flagletters(const char *s, int *simple)
{
	cfg_flag_t f = 0;
	*simple = 0;
	decl_comment = 0;
	for (; *s; s++) switch (*s) {
	case '-': break;
	case 'L': f |= CFGF_LIST; break;
	case 'M': f |= CFGF_MULTI; break;
	case 'T': f |= CFGF_TITLE; break;
	case 'U': f |= CFGF_NO_TITLE_DUPES; break;
	case 'N': f |= CFGF_NODEFAULT; break;
	case 'C': f |= CFGF_NOCASE; break;
	case 'D': f |= CFGF_DEPRECATED; break;
	case 'X': f |= CFGF_DROP; break;
	case 'K': f |= CFGF_KEYSTRVAL; break;
	case 'S': *simple = 1; break;
	case 'A': decl_comment = 1; break;
	default: die("bad flag letter %c", *s);
	}
	return f;
}

/* parse option declarations from toks[*pos..] until '}' or end */
static cfg_opt_t *build_opts(struct schema *sch, char **toks, int ntok, int *pos)
{
	cfg_opt_t *arr = NULL;
	int n = 0;
	while (*pos < ntok && strcmp(toks[*pos], "}") != 0) {
		cfg_opt_t o;
		const char *kind, *fl, *def, *cbs;
		int simple;
		if (*pos + 5 > ntok) die("short option declaration");
		memset(&o, 0, sizeof o);
		kind = toks[(*pos)++];
		o.name = dec(toks[(*pos)++], NULL);
		fl = toks[(*pos)++];
		def = toks[(*pos)++];
		cbs = toks[(*pos)++];
		if (!strcmp(kind, "int")) o.type = CFGT_INT;
		else if (!strcmp(kind, "float")) o.type = CFGT_FLOAT;
		else if (!strcmp(kind, "bool")) o.type = CFGT_BOOL;
		else if (!strcmp(kind, "str")) o.type = CFGT_STR;
		else if (!strcmp(kind, "ptr")) o.type = CFGT_PTR;
		else if (!strcmp(kind, "func")) o.type = CFGT_FUNC;
		else if (!strcmp(kind, "sec")) o.type = CFGT_SEC;
		else die("bad kind %s", kind);
		o.flags = flagletters(fl, &simple);
		if (decl_comment) {
			o.comment = strdup("declared note");
			if (!o.comment) die("oom");
		}
		switch (def[0]) {
		case '-': break;
		case 'n': o.def.number = strtol(def + 1, NULL, 0); break;
		case 'f': o.def.fpnumber = strtod(def + 1, NULL); break;
		case 'b': o.def.boolean = def[1] == '1' ? cfg_true : cfg_false; break;
		case 's': o.def.string = dec(def + 1, NULL); break;
		case 'p': o.def.parsed = dec(def + 1, NULL); break;
		default: die("bad default %s", def);
		}
		for (; *cbs; cbs++) switch (*cbs) {
		case '-': break;
		case 'p': o.parsecb = cb_parse; break;
		case 'v': o.validcb = cb_valid; break;
		case 'w': o.validcb2 = cb_valid2; break;
		case 'r': o.pf = cb_print; break;
		case 'f': o.freecb = cb_freeptr; break;
		case 'i': o.func = cfg_include; break;
		case 'u': o.func = cb_func; break;
		default: die("bad callback letter %c", *cbs);
		}
		if (o.type == CFGT_FUNC && !o.func) o.func = cb_func;
		if (simple) {
			struct simple_slot *sl = xmalloc(sizeof *sl);
			memset(sl, 0, sizeof *sl);
			sl->type = o.type;
			sl->next = sch->slots;
			sch->slots = sl;
			sl->size = o.type == CFGT_INT ? sizeof(long) : o.type == CFGT_FLOAT ? sizeof(double) : o.type == CFGT_BOOL ? sizeof(cfg_bool_t) : sizeof(char *);
			sl->mem = xmalloc(sl->size);
			memset(sl->mem, 0, sl->size);
			o.simple_value.ptr = (void **)sl->mem;
		}
		if (*pos < ntok && !strcmp(toks[*pos], "{")) {
			(*pos)++;
			o.subopts = build_opts(sch, toks, ntok, pos);
			if (*pos >= ntok || strcmp(toks[*pos], "}")) die("unbalanced schema");
			(*pos)++;
		}
		arr = realloc(arr, (n + 2) * sizeof *arr);
		if (!arr) die("oom");
		arr[n++] = o;
	}
	if (!arr) arr = xmalloc(sizeof *arr);
	memset(&arr[n], 0, sizeof *arr);	/* CFG_END() */
	return arr;
}

static unsigned long sum_str(unsigned long h, const char *s)
{
	if (!s) return h * 31 + 7;
	for (; *s; s++) h = h * 131 + (unsigned char)*s;
	return h * 31 + 3;
}

static unsigned long sum_opts(unsigned long h, cfg_opt_t *o)
{
	for (; o && o->name; o++) {
		const unsigned char *b = (const unsigned char *)o;
		size_t i;
		for (i = 0; i < sizeof *o; i++) h = h * 16777619UL ^ b[i];
		h = sum_str(h, o->name);
		h = sum_str(h, o->comment);
		h = sum_str(h, o->def.string);
		h = sum_str(h, o->def.parsed);
		if (o->subopts) h = sum_opts(h, o->subopts);
	}
	return h;
}

static void poison_free_opts(cfg_opt_t *o)
{
	cfg_opt_t *p;
	int n = 0;
	for (p = o; p && p->name; p++) {
		n++;
		if (p->subopts) poison_free_opts(p->subopts);
		if (p->def.string) { memset((char *)p->def.string, 0xDD, strlen(p->def.string)); free((char *)p->def.string); }
		if (p->def.parsed) { memset(p->def.parsed, 0xDD, strlen(p->def.parsed)); free(p->def.parsed); }
		if (p->comment) { memset(p->comment, 0xDD, strlen(p->comment)); free(p->comment); }
		memset((char *)p->name, 0xDD, strlen(p->name));
		free((char *)p->name);
	}
	memset(o, 0xDD, (n + 1) * sizeof *o);
	free(o);
}

static void free_opts_plain(cfg_opt_t *o)
{
	cfg_opt_t *p;
	for (p = o; p && p->name; p++) {
		if (p->subopts) free_opts_plain(p->subopts);
		free((char *)p->def.string);
		free(p->def.parsed);
		free(p->comment);
		free((char *)p->name);
	}
	free(o);
}

static void reset_slots(struct schema *s)
{
	struct simple_slot *sl;
	for (sl = s->slots; sl; sl = sl->next) {
		if (sl->type == CFGT_STR && *(char **)sl->mem)
			vf_free(*(char **)sl->mem, "cfgdrv.c", "reset_slots", 0);
		memset(sl->mem, 0, sl->size);
	}
}

static void cmd_schema(char **toks, int ntok)
{
	struct schema *s;
	int pos = 2;
	if (ntok < 2) die("schema: id missing");
	s = find_schema(toks[1]);
	if (s) {
		struct simple_slot *sl, *nx;
		if (!s->freed) free_opts_plain(s->opts);
		reset_slots(s);
		for (sl = s->slots; sl; sl = nx) { nx = sl->next; free(sl->mem); free(sl); }
	} else {
		if (nschemas >= MAXSCHEMA) die("too many schemas");
		s = &schemas[nschemas++];
	}
	memset(s, 0, sizeof *s);
	snprintf(s->id, sizeof s->id, "%s", toks[1]);
	s->opts = build_opts(s, toks, ntok, &pos);
	if (pos != ntok) die("schema: trailing tokens");
	s->sum = sum_opts(1469598103UL, s->opts);
}

/* ------------------------------------------------------------------ */
/* contexts and references                                             */

#define NCTX 8
struct ctx { cfg_t *cfg; struct schema *sch; };
static struct ctx ctxs[NCTX];

static struct ctx *ctx_of(const char *tok)
{
	int i;
	if (!tok || tok[0] < 'A' || tok[0] >= 'A' + NCTX) die("bad context '%s'", tok ? tok : "");
	i = tok[0] - 'A';
	return &ctxs[i];
}

static cfg_opt_t *leaf(cfg_t *cfg, const char *name)
{
	unsigned int i;
	cfg_opt_t *o;
	for (i = 0; (o = cfg_getnopt(cfg, i)) != NULL; i++)
		if (strcmp(o->name, name) == 0) return o;
	return NULL;
}

/* resolve "A/sec.0/sub.1" to a section; with wantopt the last step is an option name */
static int resolve(const char *ref, cfg_t **secp, cfg_opt_t **optp)
{
	char *copy = xstrdup(ref), *save = NULL, *step;
	cfg_t *sec;
	cfg_opt_t *opt = NULL;
	int ok = 1;
	step = strtok_r(copy, "/", &save);
	sec = ctx_of(step)->cfg;
	if (!sec) ok = 0;
	while (ok && (step = strtok_r(NULL, "/", &save)) != NULL) {
		char *dot = strchr(step, '.');
		char *name, tokbuf[600];
		if (opt) { ok = 0; break; }	/* an option step must be last */
		if (dot) *dot = 0;
		snprintf(tokbuf, sizeof tokbuf, ":%s", step);
		name = dec(tokbuf, NULL);
		opt = leaf(sec, name);
		free(name);
		if (!opt) { ok = 0; break; }
		if (dot) {
			sec = cfg_opt_getnsec(opt, (unsigned)strtoul(dot + 1, NULL, 10));
			opt = NULL;
			if (!sec) { ok = 0; break; }
		}
	}
	free(copy);
	if (!ok) return 0;
	if (optp) {
		if (!opt) return 0;
		*optp = opt;
	} else if (opt)
		return 0;
	if (secp) *secp = sec;
	return 1;
}

/* stepwise address of a pointer inside a context tree */
static int addr_walk(cfg_t *sec, const void *target, char *buf, size_t cap, size_t len)
{
	unsigned int i, j;
	cfg_opt_t *o;
	if ((const void *)sec == target) return 1;
	for (i = 0; (o = cfg_getnopt(sec, i)) != NULL; i++) {
		size_t k = len, m;
		const char *c;
		if (k + 2 >= cap) return 0;
		buf[k++] = '/';
		for (c = o->name; *c && k + 8 < cap; c++) {
			if (safe_char((unsigned char)*c)) buf[k++] = *c;
			else k += (size_t)snprintf(buf + k, cap - k, "%%%02X", (unsigned char)*c);
		}
		buf[k] = 0;
		if ((const void *)o == target) return 1;
		if (o->type == CFGT_SEC) {
			for (j = 0; j < cfg_opt_size(o); j++) {
				cfg_t *sub = cfg_opt_getnsec(o, j);
				m = k + (size_t)snprintf(buf + k, cap - k, ".%u", j);
				if (sub && addr_walk(sub, target, buf, cap, m)) return 1;
			}
		}
		buf[len] = 0;
	}
	return 0;
}

static void print_addr(const void *target)
{
	char buf[2048];
	int i;
	if (!target) { fprintf(out, "NULL"); return; }
	for (i = 0; i < NCTX; i++) {
		if (!ctxs[i].cfg) continue;
		buf[0] = (char)('A' + i); buf[1] = 0;
		if (addr_walk(ctxs[i].cfg, target, buf, sizeof buf, 1)) { fputs(buf, out); return; }
	}
	fprintf(out, "?");
}

/* ------------------------------------------------------------------ */
/* callbacks and their log                                             */

static int want_errno;	/* ambient errno installed right before every library call */
#define E(x) ((want_errno >= 0 ? (errno = want_errno) : 0), (x))
static long cb_countdown;	/* 0 = never fail; else the k-th invocation fails */
static long cb_seen;
static int w_mode;		/* 0 pass, 1 veto, 2 rewrite */
static int cb_quiet;

struct pv { unsigned magic; int live; struct pv *next, *prev; char text[1]; };
#define PV_MAGIC 0x50563031u
static struct pv *pv_head;
static long pv_live, pv_badrel;

static int cb_tick(void)
{
	cb_seen++;
	return cb_countdown && cb_seen == cb_countdown;
}

static void log_last(cfg_opt_t *opt)
{
	unsigned int n = cfg_opt_size(opt);
	fprintf(out, " n=%u", n);
	if (!n) return;
	switch (opt->type) {
	case CFGT_INT: fprintf(out, " last=%ld", cfg_opt_getnint(opt, n - 1)); break;
	case CFGT_FLOAT: fprintf(out, " last=%.17g", cfg_opt_getnfloat(opt, n - 1)); break;
	case CFGT_BOOL: fprintf(out, " last=%d", (int)cfg_opt_getnbool(opt, n - 1)); break;
	case CFGT_STR: fprintf(out, " last="); enc(out, cfg_opt_getnstr(opt, n - 1)); break;
	case CFGT_PTR: { struct pv *p = cfg_opt_getnptr(opt, n - 1); fprintf(out, " last="); enc(out, p ? p->text : NULL); break; }
	case CFGT_SEC: { cfg_t *s = cfg_opt_getnsec(opt, n - 1); fprintf(out, " last="); enc(out, s ? cfg_title(s) : NULL); break; }
	default: break;
	}
}

static char strcb_buf[4096];

static int cb_pos;	/* 1: every callback also logs the position its context reports (what a diagnostic from the callback would carry) */

static void log_pos(cfg_t *cfg)
{
	if (!cb_pos) return;
	fprintf(out, "cbpos "); enc(out, cfg ? cfg->filename : NULL); fprintf(out, " %d\n", cfg ? cfg->line : -1);
}

static int cb_parse(cfg_t *cfg, cfg_opt_t *opt, const char *value, void *result)
{
	int fail = cb_tick();
	log_pos(cfg);
	if (!cb_quiet) {
		fprintf(out, "cb p "); enc(out, opt->name); fputc(' ', out); enc(out, value);
		fprintf(out, "%s\n", fail ? " FAIL" : "");
	}
	if (fail) return 1;
	switch (opt->type) {
	case CFGT_INT:
		/* what a callback produces is the value: any long */
		if (value && !strcmp(value, "BIG")) { *(long *)result = 3232235521L; break; }
		if (value && !strcmp(value, "I31")) { *(long *)result = 2147483648L; break; }
		if (value && !strcmp(value, "U32")) { *(long *)result = 4294967295L; break; }
		if (value && !strcmp(value, "NEG")) { *(long *)result = -5L; break; }
		if (value && !strcmp(value, "HUGE")) { *(long *)result = (1L << 40) + 7; break; }
		*(long *)result = (long)strlen(value ? value : "") * 1000 + (value && value[0] ? (unsigned char)value[0] : 0); break;
	case CFGT_FLOAT:
		/* what a callback produces is the value, also when it is not a finite number */
		if (value && !strcmp(value, "INF")) { *(double *)result = HUGE_VAL; break; }
		*(double *)result = (double)strlen(value ? value : "") + 0.5; break;
	case CFGT_BOOL: *(int *)result = (value && (value[0] == 'y' || value[0] == 't')) ? 1 : 0; break;
	case CFGT_STR:
		snprintf(strcb_buf, sizeof strcb_buf, "<%s>", value ? value : "(null)");
		*(const char **)result = strcb_buf;
		break;
	case CFGT_PTR: {
		size_t n = value ? strlen(value) : 0;
		struct pv *p = xmalloc(sizeof *p + n);
		p->magic = PV_MAGIC; p->live = 1;
		memcpy(p->text, value ? value : "", n); p->text[n] = 0;
		p->prev = NULL; p->next = pv_head; if (pv_head) pv_head->prev = p; pv_head = p;
		pv_live++;
		*(void **)result = p;
		break;
	}
	default: break;
	}
	return 0;
}

static void cb_freeptr(void *vp)
{
	struct pv *p = vp, *q;
	for (q = pv_head; q && q != p; q = q->next) ;
	if (!q || p->magic != PV_MAGIC || !p->live) { pv_badrel++; return; }
	if (!cb_quiet) { fprintf(out, "cb r "); enc(out, p->text); fputc('\n', out); }
	p->live = 0; pv_live--;
	if (p->prev) p->prev->next = p->next; else pv_head = p->next;
	if (p->next) p->next->prev = p->prev;
	p->magic = 0;
	free(p);
}

static int cb_valid(cfg_t *cfg, cfg_opt_t *opt)
{
	int fail = cb_tick();
	log_pos(cfg);
	if (!cb_quiet) {
		fprintf(out, "cb v "); enc(out, opt->name);
		log_last(opt);
		fprintf(out, "%s\n", fail ? " FAIL" : "");
	}
	return fail ? 1 : 0;
}

static int cb_valid2(cfg_t *cfg, cfg_opt_t *opt, void *value)
{
	(void)cfg;
	if (!cb_quiet) {
		fprintf(out, "cb w "); enc(out, opt->name);
		switch (opt->type) {
		case CFGT_INT: fprintf(out, " %ld", *(long *)value); break;
		case CFGT_FLOAT: fprintf(out, " %.17g", *(double *)value); break;
		case CFGT_STR: fputc(' ', out); enc(out, (const char *)value); break;
		default: break;
		}
		fprintf(out, " mode=%d\n", w_mode);
	}
	if (w_mode == 1) return 1;
	if (w_mode == 2) {
		if (opt->type == CFGT_INT) *(long *)value = 4242;
		else if (opt->type == CFGT_FLOAT) *(double *)value = 42.5;
	}
	return 0;
}

static int cb_func(cfg_t *cfg, cfg_opt_t *opt, int argc, const char **argv)
{
	int fail = cb_tick(), i;
	log_pos(cfg);
	if (!cb_quiet) {
		fprintf(out, "cb f "); enc(out, opt->name); fprintf(out, " %d", argc);
		for (i = 0; i < argc; i++) { fputc(' ', out); enc(out, argv[i]); }
		fprintf(out, "%s\n", fail ? " FAIL" : "");
	}
	return fail ? 1 : 0;
}

static void cb_print(cfg_opt_t *opt, unsigned int index, FILE *fp)
{
	fprintf(fp, "<PF:%s:%u>", opt->name, index);
}

static void errfunc(cfg_t *cfg, const char *fmt, va_list ap)
{
	char msg[1024];
	vsnprintf(msg, sizeof msg, fmt, ap);
	fprintf(out, "diag "); enc(out, cfg ? cfg->filename : NULL);
	fprintf(out, " %d ", cfg ? cfg->line : -1);
	enc(out, msg); fputc('\n', out);
}

/* print filters: four slots, each hides a set of option names */
#define NPFF 4
#define MAXHID 16
static char *pff_hidden[NPFF][MAXHID];
static int pff_n[NPFF];
static int pff_generic(int k, cfg_opt_t *opt)
{
	int i;
	for (i = 0; i < pff_n[k]; i++)
		if (strcmp(pff_hidden[k][i], opt->name) == 0) {
			/* "non-zero = leave it out" (confuse.h): the predicates answer with different non-zero values */
			static const int verdict[4] = { 1, -1, 42, INT_MIN };
			return verdict[k & 3];
		}
	return 0;
}
static int pff0(cfg_t *c, cfg_opt_t *o) { (void)c; return pff_generic(0, o); }
static int pff1(cfg_t *c, cfg_opt_t *o) { (void)c; return pff_generic(1, o); }
static int pff2(cfg_t *c, cfg_opt_t *o) { (void)c; return pff_generic(2, o); }
static int pff3(cfg_t *c, cfg_opt_t *o) { (void)c; return pff_generic(3, o); }
static cfg_print_filter_func_t pffs[NPFF] = { pff0, pff1, pff2, pff3 };

/* ------------------------------------------------------------------ */
/* dump                                                                */

#define DM_MOD 1
#define DM_RESET 2
#define DM_ANNOT 4
#define DM_NOSECMOD 8	/* no MODIFIED mark on section options */
#define DM_FLOATF 16	/* floats to the precision the library prints them with (%f) */
#define DM_GETTERS 32	/* read every option and titled instance back through the by-name getters as well */

/* the name / title with the case of every ASCII letter flipped; NULL if there is no letter or a byte outside ASCII */
static char *flip_case(const char *t)
{
	char *r, *p;
	int letters = 0;
	if (!t) return NULL;
	r = strdup(t);
	for (p = r; *p; p++) {
		if ((unsigned char)*p > 127) { free(r); return NULL; }
		if (*p >= 'a' && *p <= 'z') { *p -= 32; letters++; }
		else if (*p >= 'A' && *p <= 'Z') { *p += 32; letters++; }
	}
	if (!letters) { free(r); return NULL; }
	return r;
}

static void dump_sec(cfg_t *sec, int mode);

static void dump_opt(cfg_opt_t *o, int mode)
{
	unsigned int i, n = cfg_opt_size(o);
	static const char tc[] = "?ifsbSFpc";
	enc(out, cfg_opt_name(o));
	fprintf(out, "=%c%s[%u]", tc[o->type], (o->flags & CFGF_LIST) ? "L" : "", n);
	if ((mode & DM_MOD) && (o->flags & CFGF_MODIFIED) && !((mode & DM_NOSECMOD) && o->type == CFGT_SEC)) fputc('M', out);
	if ((mode & DM_RESET) && (o->flags & CFGF_RESET)) fputc('R', out);
	fputc('(', out);
	for (i = 0; i < n; i++) {
		if (i) fputc(',', out);
		switch (o->type) {
		case CFGT_INT: fprintf(out, "%ld", cfg_opt_getnint(o, i)); break;
		case CFGT_FLOAT: fprintf(out, (mode & DM_FLOATF) ? "%f" : "%.17g", cfg_opt_getnfloat(o, i)); break;
		case CFGT_BOOL: fprintf(out, "%d", (int)cfg_opt_getnbool(o, i)); break;
		case CFGT_STR: enc(out, cfg_opt_getnstr(o, i)); break;
		case CFGT_PTR: { struct pv *p = cfg_opt_getnptr(o, i); enc(out, p ? p->text : NULL); break; }
		case CFGT_SEC: {
			cfg_t *s = cfg_opt_getnsec(o, i);
			if (!s) { fprintf(out, "NOSEC"); break; }
			enc(out, cfg_title(s));
			if ((mode & DM_GETTERS) && cfg_title(s) && (o->flags & CFGF_TITLE)) {
				char *fl;
				if (cfg_opt_gettsec(o, cfg_title(s)) != s) fprintf(out, "!gettsec");
				if ((s->flags & CFGF_NOCASE) && (fl = flip_case(cfg_title(s))) != NULL) {
					if (cfg_opt_gettsec(o, fl) != s) fprintf(out, "!gettsec-nocase");
					free(fl);
				}
			}
			dump_sec(s, mode);
			break;
		}
		default: break;
		}
	}
	fputc(')', out);
	/* "simple" options keep their value in the caller's variable */
	if (o->simple_value.ptr && n == 0) {
		switch (o->type) {
		case CFGT_INT: fprintf(out, "s(%ld)", cfg_opt_getnint(o, 0)); break;
		case CFGT_FLOAT: fprintf(out, "s(%.17g)", cfg_opt_getnfloat(o, 0)); break;
		case CFGT_BOOL: fprintf(out, "s(%d)", (int)cfg_opt_getnbool(o, 0)); break;
		case CFGT_STR: fprintf(out, "s("); enc(out, cfg_opt_getnstr(o, 0)); fputc(')', out); break;
		default: break;
		}
	}
	if ((mode & DM_ANNOT) && cfg_opt_getcomment(o)) { fputc('#', out); enc(out, cfg_opt_getcomment(o)); }
}

static void dump_sec(cfg_t *sec, int mode)
{
	unsigned int i;
	cfg_opt_t *o;
	fputc('{', out);
	for (i = 0; (o = cfg_getnopt(sec, i)) != NULL; i++) {
		if (i) fputc(' ', out);
		dump_opt(o, mode);
		if ((mode & DM_GETTERS) && o->name && o->name[0] && !strpbrk(o->name, "|=")) {
			char *fl;
			if (cfg_getopt(sec, o->name) != o) fprintf(out, "!getopt");
			if ((sec->flags & CFGF_NOCASE) && (fl = flip_case(o->name)) != NULL) {
				if (cfg_getopt(sec, fl) != o) fprintf(out, "!getopt-nocase");
				free(fl);
			}
		}
	}
	fputc('}', out);
}

/* ------------------------------------------------------------------ */
/* hygiene                                                             */

static int count_fds(void)
{
	DIR *d = opendir("/proc/self/fd");
	struct dirent *e;
	int n = 0;
	if (!d) return -1;
	while ((e = readdir(d)) != NULL)
		if (e->d_name[0] != '.') n++;
	closedir(d);
	return n - 1;	/* minus the directory handle itself */
}

static long stdout_bytes(void)
{
	struct stat st;
	fflush(stdout);
	if (stdout_memfd < 0 || fstat(stdout_memfd, &st)) return -1;
	return (long)st.st_size;
}

static void show_stdout(void)
{
	char buf[256];
	ssize_t n;
	long sz = stdout_bytes();
	if (sz <= 0) return;
	n = pread(stdout_memfd, buf, sizeof buf, 0);
	if (n > 0) { fprintf(out, "stdoutdata "); enc_n(out, buf, (size_t)n); fputc('\n', out); }
	if (ftruncate(stdout_memfd, 0)) {}
	lseek(stdout_memfd, 0, SEEK_SET);
}

static int fd_base;
static int fdcheck = 1;
static char rootdir[1024];

static void case_begin(void)
{
	int i;
	clearenv();
	setenv("LC_ALL", "C", 1);
	want_errno = 0;
	errno = 0;
	vf_rt_reset_counters();
	vf_pw_clear();
	cb_countdown = cb_seen = 0; w_mode = 0; cb_quiet = 0; cb_pos = 0;
	pv_badrel = 0;
	for (i = 0; i < nschemas; i++) reset_slots(&schemas[i]);
	for (i = 0; i < NPFF; i++) {
		int j;
		for (j = 0; j < pff_n[i]; j++) free(pff_hidden[i][j]);
		pff_n[i] = 0;
	}
	if (fdcheck) fd_base = count_fds();
}

/* returns 1 when the process is pristine afterwards */
static int case_end(void)
{
	struct vf_lexsnap ls;
	int i, autofree = 0, dirty = 0, fds = 0, declmod = 0;
	size_t lib, scan, files;
	long so;

	vf_arm_fail(0, 0);
	cb_quiet = 1;
	for (i = 0; i < NCTX; i++)
		if (ctxs[i].cfg) { cfg_free(ctxs[i].cfg); ctxs[i].cfg = NULL; autofree++; }
	cb_quiet = 0;
	for (i = 0; i < nschemas; i++) {
		reset_slots(&schemas[i]);
		if (!schemas[i].freed && sum_opts(1469598103UL, schemas[i].opts) != schemas[i].sum) {
			declmod++;
			schemas[i].sum = sum_opts(1469598103UL, schemas[i].opts);
		}
	}
	vf_lex_snapshot(&ls);
	lib = vf_live_blocks(VF_CLASS_LIB);
	scan = vf_live_blocks(VF_CLASS_SCAN);
	files = vf_live_files();
	if (fdcheck) fds = count_fds() - fd_base;
	so = stdout_bytes();
	if (lib || scan) {
		struct vf_block b[6];
		size_t n = vf_list_blocks(b, 6), k;
		for (k = 0; k < n; k++)
			fprintf(out, "leak %s:%d size=%zu class=%d\n", b[k].func, b[k].line, b[k].size, b[k].cls);
	}
	if (so > 0) show_stdout();
	/* yy_start: 0 = never initialised, 1 = INITIAL */
	if (ls.yy_start > 1 || ls.has_buffer || ls.inc_ptr || ls.have_q || lib || scan || files || fds ||
	    pv_live || pv_badrel || vf_foreign_free || vf_double_close || so != 0 || declmod)
		dirty = 1;
	fprintf(out, "hyg lex=%d,%d,%d,%d lib=%zu scan=%zu files=%zu fds=%d ptr=%ld,%ld foreign=%lu dclose=%lu stdout=%ld declmod=%d auto=%d %s\n",
		ls.yy_start, ls.has_buffer, ls.inc_ptr, ls.have_q, lib, scan, files, fds,
		pv_live, pv_badrel, vf_foreign_free, vf_double_close, so, declmod, autofree,
		dirty ? "DIRTY" : "CLEAN");
	return !dirty;
}

/* ------------------------------------------------------------------ */
/* fixtures                                                            */

static void rm_rf(const char *path)
{
	DIR *d = opendir(path);
	struct dirent *e;
	char buf[2048];
	if (!d) { unlink(path); return; }
	while ((e = readdir(d)) != NULL) {
		struct stat st;
		if (!strcmp(e->d_name, ".") || !strcmp(e->d_name, "..")) continue;
		snprintf(buf, sizeof buf, "%s/%s", path, e->d_name);
		if (!lstat(buf, &st) && S_ISDIR(st.st_mode)) rm_rf(buf);
		else unlink(buf);
	}
	closedir(d);
	rmdir(path);
}

static void mkdir_p(const char *path)
{
	char buf[2048], *p;
	snprintf(buf, sizeof buf, "%s", path);
	for (p = buf + 1; *p; p++)
		if (*p == '/') { *p = 0; mkdir(buf, 0777); *p = '/'; }
	mkdir(buf, 0777);
}

static void cmd_root(const char *path)
{
	if (strncmp(path, "/verif/build/", 13) && strncmp(path, "/tmp/", 5))
		die("fixture root must be under /verif/build or /tmp: %s", path);
	rm_rf(path);
	mkdir_p(path);
	if (chdir(path)) die("chdir %s", path);
	snprintf(rootdir, sizeof rootdir, "%s", path);
}

/* ------------------------------------------------------------------ */
/* operations                                                          */

static const char *kind_of(cfg_opt_t *o)
{
	switch (o->type) {
	case CFGT_INT: return "int"; case CFGT_FLOAT: return "float"; case CFGT_BOOL: return "bool";
	case CFGT_STR: return "str"; case CFGT_PTR: return "ptr"; case CFGT_SEC: return "sec";
	case CFGT_FUNC: return "func"; default: return "none";
	}
}

static void do_print(cfg_t *sec, cfg_opt_t *opt, int indent, int use_indent)
{
	char *buf = NULL;
	size_t len = 0;
	FILE *fp = open_memstream(&buf, &len);
	int rc;
	if (!fp) die("open_memstream");
	if (opt)
		rc = use_indent ? cfg_opt_print_indent(opt, fp, indent) : cfg_opt_print(opt, fp);
	else
		rc = use_indent ? cfg_print_indent(sec, fp, indent) : cfg_print(sec, fp);
	fclose(fp);
	fprintf(out, "out %d ", rc); enc_n(out, buf, len); fputc('\n', out);
	free(buf);
}

struct failing_stream { const char *data; size_t len, pos; };

static ssize_t fs_read(void *c, char *buf, size_t n)
{
	struct failing_stream *f = c;
	size_t m = f->len - f->pos;
	if (m == 0) { errno = EIO; return -1; }
	if (m > n) m = n;
	memcpy(buf, f->data + f->pos, m);
	f->pos += m;
	return (ssize_t)m;
}

static void snapshot_opt(cfg_opt_t *o)
{
	unsigned int i;
	fprintf(out, "snap n=%u flags=%s%s vals=", o->nvalues,
		(o->flags & CFGF_RESET) ? "R" : "", (o->flags & CFGF_MODIFIED) ? "M" : "");
	fputc('(', out);
	for (i = 0; i < o->nvalues; i++) {
		if (i) fputc(',', out);
		switch (o->type) {
		case CFGT_INT: fprintf(out, "%ld", o->values[i]->number); break;
		case CFGT_FLOAT: fprintf(out, "%.17g", o->values[i]->fpnumber); break;
		case CFGT_BOOL: fprintf(out, "%d", (int)o->values[i]->boolean); break;
		case CFGT_STR: enc(out, o->values[i]->string); break;
		case CFGT_PTR: { struct pv *p = o->values[i]->ptr; enc(out, p ? p->text : NULL); break; }
		case CFGT_SEC: {
			cfg_t *s = o->values[i]->section;
			enc(out, s ? cfg_title(s) : NULL);
			if (s) dump_sec(s, DM_MOD | DM_RESET | DM_ANNOT);
			break;
		}
		default: break;
		}
	}
	fprintf(out, ") comment="); enc(out, o->comment); fputc('\n', out);
}

#define NEED(n) do { if (ntok < (n)) die("op %s: too few arguments", t[0]); } while (0)
#define SEC(ref) do { if (!resolve((ref), &sec, NULL)) { fprintf(out, "r %s badref\n", t[0]); return; } } while (0)
#define OPT(ref) do { if (!resolve((ref), &sec, &opt)) { fprintf(out, "r %s badref\n", t[0]); return; } } while (0)

static void do_op(char **t, int ntok)
{
	const char *op = t[0];
	cfg_t *sec = NULL;
	cfg_opt_t *opt = NULL;
	char *s1 = NULL, *s2 = NULL;
	size_t l1 = 0;
	int rc;

	if (want_errno >= 0)
		errno = want_errno;	/* -1: leave errno as the previous library call left it */
	if (!strcmp(op, "schema")) {
		/* (re)define a schema inside a case: needed when the case releases the declarations */
		cmd_schema(t, ntok);
		return;
	}
	if (!strcmp(op, "env")) {
		NEED(3); s1 = dec(t[1], NULL); s2 = dec(t[2], NULL);
		if (s2) setenv(s1, s2, 1); else unsetenv(s1);
	} else if (!strcmp(op, "init")) {
		struct ctx *c; struct schema *s;
		NEED(4);
		c = ctx_of(t[1]); s = find_schema(t[2]);
		if (!s) die("init: unknown schema %s", t[2]);
		if (c->cfg) die("init: context in use");
		c->sch = s;
		c->cfg = E(cfg_init(s->opts, (cfg_flag_t)strtol(t[3], NULL, 0)));
		if (c->cfg && !(ntok > 4 && !strcmp(t[4], "noerr")))
			cfg_set_error_function(c->cfg, errfunc);
		fprintf(out, "r init %d\n", c->cfg ? 1 : 0);
	} else if (!strcmp(op, "declfree")) {
		struct schema *s;
		NEED(2); s = find_schema(t[1]);
		if (!s) die("declfree: unknown schema");
		if (!s->freed) { poison_free_opts(s->opts); s->opts = NULL; s->freed = 1; }
	} else if (!strcmp(op, "free")) {
		struct ctx *c;
		NEED(2); c = ctx_of(t[1]);
		if (!c->cfg) { fprintf(out, "r free badref\n"); return; }
		rc = cfg_free(c->cfg); c->cfg = NULL;
		fprintf(out, "r free %d\n", rc);
	} else if (!strcmp(op, "parse_buf")) {
		NEED(3); SEC(t[1]); s1 = dec(t[2], NULL);
		rc = E(cfg_parse_buf(sec, s1));
		fprintf(out, "r parse_buf %d\n", rc);
	} else if (!strcmp(op, "parse_fp")) {
		int fd; FILE *fp;
		NEED(3); SEC(t[1]); s1 = dec(t[2], &l1);
		fd = memfd_create("vfinput", 0);
		if (fd < 0 || (l1 && write(fd, s1, l1) != (ssize_t)l1)) die("memfd");
		lseek(fd, 0, SEEK_SET);
		fp = fdopen(fd, "r");
		rc = E(cfg_parse_fp(sec, fp));
		fclose(fp);
		fprintf(out, "r parse_fp %d\n", rc);
	} else if (!strcmp(op, "parse_fperr")) {
		/* a stream that delivers the text and then fails: the read after the last byte returns an error (EIO) */
		FILE *fp; struct failing_stream fs;
		cookie_io_functions_t io = { fs_read, NULL, NULL, NULL };
		NEED(3); SEC(t[1]); s1 = dec(t[2], &l1);
		fs.data = s1; fs.len = l1; fs.pos = 0;
		fp = fopencookie(&fs, "r", io);
		if (!fp) die("fopencookie");
		rc = E(cfg_parse_fp(sec, fp));
		fclose(fp);
		fprintf(out, "r parse_fperr %d\n", rc);
	} else if (!strcmp(op, "parse")) {
		NEED(3); SEC(t[1]); s1 = dec(t[2], NULL);
		rc = E(cfg_parse(sec, s1));
		fprintf(out, "r parse %d\n", rc);
	} else if (!strcmp(op, "addpath")) {
		NEED(3); SEC(t[1]); s1 = dec(t[2], NULL);
		rc = E(cfg_add_searchpath(sec, s1));
		fprintf(out, "r addpath %d\n", rc);
	} else if (!strcmp(op, "setint") || !strcmp(op, "setfloat") || !strcmp(op, "setbool") || !strcmp(op, "setstr")) {
		/* by name: <secref> <path> <value> [index]; without index the scalar form is used */
		NEED(4); SEC(t[1]); s1 = dec(t[2], NULL);
		if (op[3] == 'i') rc = ntok > 4 ? cfg_setnint(sec, s1, strtol(t[3], NULL, 0), (unsigned)strtoul(t[4], NULL, 0)) : cfg_setint(sec, s1, strtol(t[3], NULL, 0));
		else if (op[3] == 'f') rc = ntok > 4 ? cfg_setnfloat(sec, s1, strtod(t[3], NULL), (unsigned)strtoul(t[4], NULL, 0)) : cfg_setfloat(sec, s1, strtod(t[3], NULL));
		else if (op[3] == 'b') rc = ntok > 4 ? cfg_setnbool(sec, s1, t[3][0] == '1' ? cfg_true : cfg_false, (unsigned)strtoul(t[4], NULL, 0)) : cfg_setbool(sec, s1, t[3][0] == '1' ? cfg_true : cfg_false);
		else { s2 = dec(t[3], NULL); rc = ntok > 4 ? cfg_setnstr(sec, s1, s2, (unsigned)strtoul(t[4], NULL, 0)) : cfg_setstr(sec, s1, s2); }
		fprintf(out, "r %s %d\n", op, rc);
	} else if (!strcmp(op, "setlist_from")) {
		/* <secref> <path> <n> <source index>...: a string list is set to a selection of its own elements, each handed over as the
		 * getter returned it (arguments that alias the memory the call releases); n <= 3 */
		const char *v[3] = { NULL, NULL, NULL };
		int k, n;
		NEED(4); SEC(t[1]); s1 = dec(t[2], NULL); n = atoi(t[3]);
		if (n < 0 || n > 3 || ntok < 4 + n) die("setlist_from");
		for (k = 0; k < n; k++) v[k] = cfg_getnstr(sec, s1, (unsigned)strtoul(t[4 + k], NULL, 0));
		rc = n == 0 ? cfg_setlist(sec, s1, 0) : n == 1 ? cfg_setlist(sec, s1, 1, v[0]) : n == 2 ? cfg_setlist(sec, s1, 2, v[0], v[1]) : cfg_setlist(sec, s1, 3, v[0], v[1], v[2]);
		fprintf(out, "r setlist_from %d\n", rc);
	} else if (!strcmp(op, "setstr_from")) {
		/* <secref> <path> <index> <source path> <source index>: the string the library itself returns for the source is handed
		 * straight back to the setter (an argument that aliases stored memory) */
		const char *v;
		NEED(6); SEC(t[1]); s1 = dec(t[2], NULL); s2 = dec(t[4], NULL);
		v = cfg_getnstr(sec, s2, (unsigned)strtoul(t[5], NULL, 0));
		rc = cfg_setnstr(sec, s1, v, (unsigned)strtoul(t[3], NULL, 0));
		fprintf(out, "r setstr_from %d\n", rc);
	} else if (!strcmp(op, "osetint") || !strcmp(op, "osetfloat") || !strcmp(op, "osetbool") || !strcmp(op, "osetstr")) {
		unsigned idx;
		NEED(4); OPT(t[1]); idx = (unsigned)strtoul(t[3], NULL, 0);
		if (op[4] == 'i') rc = cfg_opt_setnint(opt, strtol(t[2], NULL, 0), idx);
		else if (op[4] == 'f') rc = cfg_opt_setnfloat(opt, strtod(t[2], NULL), idx);
		else if (op[4] == 'b') rc = cfg_opt_setnbool(opt, t[2][0] == '1' ? cfg_true : cfg_false, idx);
		else { s1 = dec(t[2], NULL); rc = cfg_opt_setnstr(opt, s1, idx); }
		fprintf(out, "r %s %d\n", op, rc);
	} else if (!strcmp(op, "setlist") || !strcmp(op, "addlist")) {
		/* <secref> <path> <kind> <n> v... (n <= 3) */
		int n, set = op[0] == 's';
		NEED(5); SEC(t[1]); s1 = dec(t[2], NULL); n = atoi(t[4]);
		if (ntok < 5 + n || n > 3) die("setlist arity");
		if (!strcmp(t[3], "int")) {
			int v[3] = {0, 0, 0}, i; for (i = 0; i < n; i++) v[i] = atoi(t[5 + i]);
			rc = set ? (n == 0 ? cfg_setlist(sec, s1, 0) : n == 1 ? cfg_setlist(sec, s1, 1, v[0]) : n == 2 ? cfg_setlist(sec, s1, 2, v[0], v[1]) : cfg_setlist(sec, s1, 3, v[0], v[1], v[2]))
				 : (n == 0 ? cfg_addlist(sec, s1, 0) : n == 1 ? cfg_addlist(sec, s1, 1, v[0]) : n == 2 ? cfg_addlist(sec, s1, 2, v[0], v[1]) : cfg_addlist(sec, s1, 3, v[0], v[1], v[2]));
		} else if (!strcmp(t[3], "float")) {
			double v[3] = {0, 0, 0}; int i; for (i = 0; i < n; i++) v[i] = strtod(t[5 + i], NULL);
			rc = set ? (n == 0 ? cfg_setlist(sec, s1, 0) : n == 1 ? cfg_setlist(sec, s1, 1, v[0]) : n == 2 ? cfg_setlist(sec, s1, 2, v[0], v[1]) : cfg_setlist(sec, s1, 3, v[0], v[1], v[2]))
				 : (n == 0 ? cfg_addlist(sec, s1, 0) : n == 1 ? cfg_addlist(sec, s1, 1, v[0]) : n == 2 ? cfg_addlist(sec, s1, 2, v[0], v[1]) : cfg_addlist(sec, s1, 3, v[0], v[1], v[2]));
		} else if (!strcmp(t[3], "bool")) {
			cfg_bool_t v[3] = {cfg_false, cfg_false, cfg_false}; int i; for (i = 0; i < n; i++) v[i] = t[5 + i][0] == '1' ? cfg_true : cfg_false;
			rc = set ? (n == 0 ? cfg_setlist(sec, s1, 0) : n == 1 ? cfg_setlist(sec, s1, 1, v[0]) : n == 2 ? cfg_setlist(sec, s1, 2, v[0], v[1]) : cfg_setlist(sec, s1, 3, v[0], v[1], v[2]))
				 : (n == 0 ? cfg_addlist(sec, s1, 0) : n == 1 ? cfg_addlist(sec, s1, 1, v[0]) : n == 2 ? cfg_addlist(sec, s1, 2, v[0], v[1]) : cfg_addlist(sec, s1, 3, v[0], v[1], v[2]));
		} else {
			char *v[3] = {NULL, NULL, NULL}; int i; for (i = 0; i < n; i++) v[i] = dec(t[5 + i], NULL);
			rc = set ? (n == 0 ? cfg_setlist(sec, s1, 0) : n == 1 ? cfg_setlist(sec, s1, 1, v[0]) : n == 2 ? cfg_setlist(sec, s1, 2, v[0], v[1]) : cfg_setlist(sec, s1, 3, v[0], v[1], v[2]))
				 : (n == 0 ? cfg_addlist(sec, s1, 0) : n == 1 ? cfg_addlist(sec, s1, 1, v[0]) : n == 2 ? cfg_addlist(sec, s1, 2, v[0], v[1]) : cfg_addlist(sec, s1, 3, v[0], v[1], v[2]));
			for (i = 0; i < n; i++) free(v[i]);
		}
		fprintf(out, "r %s %d\n", op, rc);
	} else if (!strcmp(op, "setmulti") || !strcmp(op, "osetmulti")) {
		/* setmulti <secref> <path> n strs... ; osetmulti <optref> n strs... */
		char *v[8]; int n, i, base;
		if (op[0] == 'o') { NEED(3); OPT(t[1]); base = 2; }
		else { NEED(4); SEC(t[1]); s1 = dec(t[2], NULL); base = 3; }
		n = atoi(t[base]);
		if (n > 8 || ntok < base + 1 + n) die("setmulti arity");
		for (i = 0; i < n; i++) v[i] = dec(t[base + 1 + i], NULL);
		rc = op[0] == 'o' ? cfg_opt_setmulti(sec, opt, (unsigned)n, v) : cfg_setmulti(sec, s1, (unsigned)n, v);
		for (i = 0; i < n; i++) free(v[i]);
		fprintf(out, "r %s %d\n", op, rc);
	} else if (!strcmp(op, "setopt")) {
		cfg_value_t *v;
		NEED(3); OPT(t[1]); s1 = dec(t[2], NULL);
		v = E(cfg_setopt(sec, opt, s1));
		fprintf(out, "r setopt %d\n", v ? 1 : 0);
	} else if (!strcmp(op, "setopt_from")) {
		/* <optref> <index>: set-from-text with the string the option itself returns for that element (an argument that aliases
		 * what the call may release) */
		cfg_value_t *v;
		const char *own;
		NEED(3); OPT(t[1]);
		own = opt->type == CFGT_STR ? cfg_opt_getnstr(opt, (unsigned)strtoul(t[2], NULL, 0)) : NULL;
		if (!own) { fprintf(out, "r setopt_from none\n"); return; }
		v = E(cfg_setopt(sec, opt, own));
		fprintf(out, "r setopt_from %d\n", v ? 1 : 0);
	} else if (!strcmp(op, "setcomment")) {
		NEED(4); SEC(t[1]); s1 = dec(t[2], NULL); s2 = dec(t[3], NULL);
		rc = E(cfg_setcomment(sec, s1, s2));
		fprintf(out, "r setcomment %d\n", rc);
	} else if (!strcmp(op, "osetcomment")) {
		NEED(3); OPT(t[1]); s1 = dec(t[2], NULL);
		rc = E(cfg_opt_setcomment(opt, s1));
		fprintf(out, "r osetcomment %d\n", rc);
	} else if (!strcmp(op, "addtsec")) {
		cfg_t *r;
		NEED(4); SEC(t[1]); s1 = dec(t[2], NULL); s2 = dec(t[3], NULL);
		r = E(cfg_addtsec(sec, s1, s2));
		fprintf(out, "r addtsec %d\n", r ? 1 : 0);
	} else if (!strcmp(op, "rmnsec")) {
		NEED(4); SEC(t[1]); s1 = dec(t[2], NULL);
		rc = E(cfg_rmnsec(sec, s1, (unsigned)strtoul(t[3], NULL, 0)));
		fprintf(out, "r rmnsec %d\n", rc);
	} else if (!strcmp(op, "rmtsec")) {
		NEED(4); SEC(t[1]); s1 = dec(t[2], NULL); s2 = dec(t[3], NULL);
		rc = E(cfg_rmtsec(sec, s1, s2));
		fprintf(out, "r rmtsec %d\n", rc);
	} else if (!strcmp(op, "rmsec")) {
		NEED(3); SEC(t[1]); s1 = dec(t[2], NULL);
		rc = E(cfg_rmsec(sec, s1));
		fprintf(out, "r rmsec %d\n", rc);
	} else if (!strcmp(op, "ormnsec")) {
		NEED(3); OPT(t[1]);
		rc = E(cfg_opt_rmnsec(opt, (unsigned)strtoul(t[2], NULL, 0)));
		fprintf(out, "r ormnsec %d\n", rc);
	} else if (!strcmp(op, "ormtsec")) {
		NEED(3); OPT(t[1]); s1 = dec(t[2], NULL);
		rc = E(cfg_opt_rmtsec(opt, s1));
		fprintf(out, "r ormtsec %d\n", rc);
	} else if (!strcmp(op, "getopt")) {
		cfg_opt_t *r;
		NEED(3); SEC(t[1]); s1 = dec(t[2], NULL);
		r = E(cfg_getopt(sec, s1));
		fprintf(out, "r getopt "); print_addr(r); fputc('\n', out);
	} else if (!strcmp(op, "getsec")) {
		cfg_t *r;
		NEED(3); SEC(t[1]); s1 = dec(t[2], NULL);
		r = E(cfg_getsec(sec, s1));
		fprintf(out, "r getsec "); print_addr(r); fputc('\n', out);
	} else if (!strcmp(op, "getnsec")) {
		cfg_t *r;
		NEED(4); SEC(t[1]); s1 = dec(t[2], NULL);
		r = E(cfg_getnsec(sec, s1, (unsigned)strtoul(t[3], NULL, 0)));
		fprintf(out, "r getnsec "); print_addr(r); fputc('\n', out);
	} else if (!strcmp(op, "gettsec")) {
		cfg_t *r;
		NEED(4); SEC(t[1]); s1 = dec(t[2], NULL); s2 = dec(t[3], NULL);
		r = E(cfg_gettsec(sec, s1, s2));
		fprintf(out, "r gettsec "); print_addr(r); fputc('\n', out);
	} else if (!strcmp(op, "get")) {
		/* typed getter by path: get <secref> <path> <kind> <index> */
		unsigned idx;
		NEED(5); SEC(t[1]); s1 = dec(t[2], NULL); idx = (unsigned)strtoul(t[4], NULL, 0);
		/* evaluate first: the getter may emit diagnostics */
		if (!strcmp(t[3], "int")) { long v = idx ? cfg_getnint(sec, s1, idx) : cfg_getint(sec, s1); fprintf(out, "r get %ld", v); }
		else if (!strcmp(t[3], "float")) { double v = idx ? cfg_getnfloat(sec, s1, idx) : cfg_getfloat(sec, s1); fprintf(out, "r get %.17g", v); }
		else if (!strcmp(t[3], "bool")) { int v = (int)(idx ? cfg_getnbool(sec, s1, idx) : cfg_getbool(sec, s1)); fprintf(out, "r get %d", v); }
		else if (!strcmp(t[3], "str")) { char *v = idx ? cfg_getnstr(sec, s1, idx) : cfg_getstr(sec, s1); fprintf(out, "r get "); enc(out, v); }
		else if (!strcmp(t[3], "ptr")) { struct pv *v = idx ? cfg_getnptr(sec, s1, idx) : cfg_getptr(sec, s1); fprintf(out, "r get "); enc(out, v ? v->text : NULL); }
		else if (!strcmp(t[3], "size")) { unsigned v = cfg_size(sec, s1); fprintf(out, "r get %u", v); }
		else if (!strcmp(t[3], "comment")) { char *v = cfg_getcomment(sec, s1); fprintf(out, "r get "); enc(out, v); }
		else die("get: kind");
		fputc('\n', out);
	} else if (!strcmp(op, "print")) {
		NEED(2); SEC(t[1]);
		do_print(sec, NULL, ntok > 2 ? atoi(t[2]) : 0, ntok > 2);
	} else if (!strcmp(op, "oprint")) {
		NEED(2); OPT(t[1]);
		do_print(NULL, opt, ntok > 2 ? atoi(t[2]) : 0, ntok > 2);
	} else if (!strcmp(op, "roundtrip")) {
		/* roundtrip <src secref> <dst ctx>: print src into memory, parse that text into dst */
		char *buf = NULL;
		size_t len = 0;
		FILE *fp;
		cfg_t *src;
		struct ctx *dst;
		NEED(3); SEC(t[1]); src = sec;
		dst = ctx_of(t[2]);
		if (!dst->cfg) { fprintf(out, "r roundtrip badref\n"); return; }
		fp = open_memstream(&buf, &len);
		if (!fp) die("open_memstream");
		E(cfg_print(src, fp));
		fclose(fp);
		/* the text is read by "another program": the variables behind 'simple' options start from scratch there */
		if (dst->sch) reset_slots(dst->sch);
		rc = E(cfg_parse_buf(dst->cfg, buf));
		fprintf(out, "r roundtrip %d ", rc); enc_n(out, buf, len); fputc('\n', out);
		free(buf);
	} else if (!strcmp(op, "misc")) {
		/* small accessors without an operation of their own: misc <secref> <optname> */
		cfg_opt_t *o;
		NEED(3); SEC(t[1]); s1 = dec(t[2], NULL);
		o = leaf(sec, s1);
		fprintf(out, "r misc num=%u numopts=%d getstr=", cfg_num(sec), cfg_numopts(sec->opts));
		enc(out, o && o->type == CFGT_STR ? cfg_opt_getstr(o) : NULL);
		fprintf(out, " bool=%d,%d,%d\n", cfg_parse_boolean("yes"), cfg_parse_boolean("Off"), cfg_parse_boolean("maybe"));
	} else if (!strcmp(op, "pffnames")) {
		int k, i;
		NEED(2); k = atoi(t[1]);
		if (k < 0 || k >= NPFF || ntok - 2 > MAXHID) die("pffnames");
		for (i = 0; i < pff_n[k]; i++) free(pff_hidden[k][i]);
		pff_n[k] = 0;
		for (i = 2; i < ntok; i++) pff_hidden[k][pff_n[k]++] = dec(t[i], NULL);
	} else if (!strcmp(op, "set_pff")) {
		NEED(3); SEC(t[1]);
		cfg_set_print_filter_func(sec, t[2][0] == '-' ? NULL : pffs[atoi(t[2]) % NPFF]);
	} else if (!strcmp(op, "set_pf")) {
		NEED(3); OPT(t[1]);
		cfg_opt_set_print_func(opt, t[2][0] == '1' ? cb_print : NULL);
	} else if (!strcmp(op, "set_pf_name")) {
		NEED(4); SEC(t[1]); s1 = dec(t[2], NULL);
		cfg_set_print_func(sec, s1, t[3][0] == '1' ? cb_print : NULL);
	} else if (!strcmp(op, "set_vf")) {
		cfg_validate_callback_t old;
		NEED(4); SEC(t[1]); s1 = dec(t[2], NULL);
		old = cfg_set_validate_func(sec, s1, t[3][0] == '1' ? cb_valid : NULL);
		fprintf(out, "r set_vf %d\n", old ? 1 : 0);
	} else if (!strcmp(op, "set_vf2")) {
		cfg_validate_callback2_t old;
		NEED(4); SEC(t[1]); s1 = dec(t[2], NULL);
		old = cfg_set_validate_func2(sec, s1, t[3][0] == '1' ? cb_valid2 : NULL);
		fprintf(out, "r set_vf2 %d\n", old ? 1 : 0);
	} else if (!strcmp(op, "seterr")) {
		NEED(3); SEC(t[1]);
		cfg_set_error_function(sec, t[2][0] == '1' ? errfunc : NULL);
	} else if (!strcmp(op, "tilde")) {
		char *r;
		NEED(2); s1 = dec(t[1], NULL);
		r = E(cfg_tilde_expand(s1));
		fprintf(out, "r tilde "); enc(out, r); fputc('\n', out);
		if (r) vf_free(r, "cfgdrv.c", "tilde", 0);
	} else if (!strcmp(op, "searchpath")) {
		char *r;
		NEED(3); SEC(t[1]); s1 = dec(t[2], NULL);
		r = E(cfg_searchpath(sec->path, s1));
		fprintf(out, "r searchpath "); enc(out, r); fputc('\n', out);
		if (r) vf_free(r, "cfgdrv.c", "searchpath", 0);
	} else if (!strcmp(op, "passwd")) {
		NEED(3); s1 = dec(t[1], NULL); s2 = dec(t[2], NULL);
		vf_pw_add(s1, s2);
	} else if (!strcmp(op, "me")) {
		NEED(2); s1 = dec(t[1], NULL); vf_pw_me(s1);
	} else if (!strcmp(op, "pwreal")) {
		vf_pw_real(1);
	} else if (!strcmp(op, "errno")) {
		NEED(2); want_errno = atoi(t[1]);
	} else if (!strcmp(op, "geterrno")) {
		fprintf(out, "r errno %d\n", errno);
	} else if (!strcmp(op, "fail_alloc")) {
		NEED(2); vf_arm_fail(strtoul(t[1], NULL, 0), ntok > 2 ? strtoul(t[2], NULL, 0) : 0);
	} else if (!strcmp(op, "allocs")) {
		fprintf(out, "r allocs lib=%lu scan=%lu seen=%lu failed=%lu site=%s\n", vf_req[0], vf_req[1], vf_fail_count, vf_failed,
			vf_failed_site ? vf_failed_site : "-");
	} else if (!strcmp(op, "fill")) {
		NEED(2); vf_fill = t[1][0] == '-' ? -1 : (int)strtol(t[1], NULL, 0);
	} else if (!strcmp(op, "cb_fail")) {
		NEED(2); cb_countdown = strtol(t[1], NULL, 0); cb_seen = 0;
	} else if (!strcmp(op, "cb_pos")) {
		NEED(2); cb_pos = atoi(t[1]);
	} else if (!strcmp(op, "w_mode")) {
		NEED(2); w_mode = atoi(t[1]);
	} else if (!strcmp(op, "cb_quiet")) {
		NEED(2); cb_quiet = atoi(t[1]);
	} else if (!strcmp(op, "dump")) {
		NEED(3); SEC(t[1]);
		fprintf(out, "dump "); dump_sec(sec, atoi(t[2])); fputc('\n', out);
	} else if (!strcmp(op, "snapshot")) {
		NEED(2); OPT(t[1]); snapshot_opt(opt);
	} else if (!strcmp(op, "optinfo")) {
		NEED(2); OPT(t[1]);
		fprintf(out, "r optinfo %s flags=%d n=%u\n", kind_of(opt), opt->flags, opt->nvalues);
	} else if (!strcmp(op, "secinfo")) {
		NEED(2); SEC(t[1]);
		fprintf(out, "r secinfo name="); enc(out, cfg_name(sec)); fprintf(out, " title="); enc(out, cfg_title(sec));
		fprintf(out, " file="); enc(out, sec->filename); fprintf(out, " line=%d flags=%d path=%d\n", sec->line, sec->flags, sec->path ? 1 : 0);
	} else if (!strcmp(op, "lexstate")) {
		struct vf_lexsnap ls;
		vf_lex_snapshot(&ls);
		fprintf(out, "lex start=%d init=%d buf=%d top=%d inc=%d q=%d qi=%lu ql=%lu\n", ls.yy_start, ls.yy_init, ls.has_buffer,
			ls.stack_top, ls.inc_ptr, ls.have_q, ls.q_index, ls.q_len);
	} else if (!strcmp(op, "stdoutcheck")) {
		fprintf(out, "r stdout %ld\n", stdout_bytes());
	} else if (!strcmp(op, "wipe")) {
		/* empty the fixture directory (the current directory) */
		DIR *d;
		struct dirent *e;
		char buf[2048];
		if (!rootdir[0]) die("wipe: no fixture root set");
		d = opendir(rootdir);
		while (d && (e = readdir(d)) != NULL) {
			if (!strcmp(e->d_name, ".") || !strcmp(e->d_name, "..")) continue;
			snprintf(buf, sizeof buf, "%s/%s", rootdir, e->d_name);
			rm_rf(buf);
		}
		if (d) closedir(d);
	} else if (!strcmp(op, "mkdir")) {
		NEED(2); s1 = dec(t[1], NULL); mkdir_p(s1);
	} else if (!strcmp(op, "mkfile")) {
		int fd;
		NEED(3); s1 = dec(t[1], NULL); s2 = dec(t[2], &l1);
		fd = open(s1, O_WRONLY | O_CREAT | O_TRUNC, 0666);
		if (fd < 0 || (l1 && write(fd, s2, l1) != (ssize_t)l1)) die("mkfile %s: %s", s1, strerror(errno));
		close(fd);
	} else if (!strcmp(op, "mkfifo")) {
		NEED(2); s1 = dec(t[1], NULL);
		if (mkfifo(s1, 0666) != 0) die("mkfifo %s: %s", s1, strerror(errno));
	} else if (!strcmp(op, "symlink")) {
		/* <target> <name> */
		NEED(3); s1 = dec(t[1], NULL); s2 = dec(t[2], NULL);
		if (symlink(s1, s2) != 0) die("symlink %s: %s", s2, strerror(errno));
	} else if (!strcmp(op, "chmod")) {
		NEED(3); s1 = dec(t[1], NULL); chmod(s1, (mode_t)strtol(t[2], NULL, 8));
	} else if (!strcmp(op, "note")) {
		/* ignored */
	} else
		die("unknown op '%s'", op);
	free(s1); free(s2);
}

/* ------------------------------------------------------------------ */
/* case reader                                                         */

static char **lines;
static size_t nlines, caplines;

static int split(char *line, char **toks, int max)
{
	int n = 0;
	char *p = line;
	while (*p && n < max) {
		while (*p == ' ') p++;
		if (!*p) break;
		toks[n++] = p;
		while (*p && *p != ' ') p++;
		if (*p) *p++ = 0;
	}
	return n;
}

#define MAXTOK 4096
static char *toks[MAXTOK];

static void run_case_lines(void)
{
	size_t i;
	for (i = 0; i < nlines; i++) {
		int n = split(lines[i], toks, MAXTOK);
		if (!n) continue;
		do_op(toks, n);
		if (unbuffered) fflush(out);
	}
}

void vf_drv_on_exit(const char *what, int code, const char *file, const char *func, int line)
{
	(void)file;
	if (out) {
		fprintf(out, "libexit %s %d %s:%d\n", what, code, func, line);
		fflush(out);
	}
}

static void sweep(char **t, int ntok);

int main(int argc, char **argv)
{
	char *line = NULL;
	size_t cap = 0;
	ssize_t len;
	int in_case = 0, forkmode = 0, draining = 0;
	char caseid[64] = "";
	int horizon = 0;
	int pfd;

	FILE *cmd;
	int cfd, nullfd;

	(void)argc; (void)argv;
	signal(SIGPIPE, SIG_DFL);
	/* the protocol must not share a descriptor with anything the library may touch: commands are
	 * read from a private copy of fd 0, and fd 0 itself becomes /dev/null (a scanner that falls
	 * back to stdin then sees end of input instead of eating the explorer's commands) */
	cfd = dup(0);
	nullfd = open("/dev/null", O_RDONLY);
	if (cfd < 0 || nullfd < 0 || dup2(nullfd, 0) < 0) return 98;
	close(nullfd);
	cmd = fdopen(cfd, "r");
	if (!cmd) return 98;
	pfd = dup(1);
	if (pfd < 0) return 98;
	out = fdopen(pfd, "w");
	if (!out) return 98;
	setvbuf(out, NULL, _IOFBF, 1 << 16);
	stdout_memfd = memfd_create("vfstdout", 0);
	if (stdout_memfd < 0 || dup2(stdout_memfd, 1) < 0) die("memfd for stdout");
	if (getenv("VF_UNBUF")) unbuffered = 1;
	if (getenv("VF_NOFDCHECK")) fdcheck = 0;

	while ((len = getline(&line, &cap, cmd)) > 0) {
		if (line[len - 1] == '\n') line[--len] = 0;
		if (!in_case) {
			char *copy = xstrdup(line);
			int n = split(copy, toks, MAXTOK);
			if (n == 0) { free(copy); continue; }
			if (!strcmp(toks[0], "begin")) {
				if (n < 2) die("begin: id");
				snprintf(caseid, sizeof caseid, "%s", toks[1]);
				forkmode = n > 2 && !strcmp(toks[2], "fork");
				horizon = n > 3 ? atoi(toks[3]) : 0;
				in_case = 1; nlines = 0;
			} else if (!strcmp(toks[0], "schema")) {
				cmd_schema(toks, n);
			} else if (!strcmp(toks[0], "root")) {
				char *p = dec(toks[1], NULL); cmd_root(p); free(p);
			} else if (!strcmp(toks[0], "sync")) {
				draining = 0;
				fprintf(out, "synced %s\n", n > 1 ? toks[1] : "");
				fflush(out);
			} else if (!strcmp(toks[0], "sweep")) {
				sweep(toks, n);
				fflush(out);
			} else if (!strcmp(toks[0], "quit")) {
				free(copy);
				break;
			} else
				die("unknown command '%s'", toks[0]);
			free(copy);
			continue;
		}
		if (strcmp(line, "end") != 0) {
			if (nlines == caplines) {
				caplines = caplines ? caplines * 2 : 64;
				lines = realloc(lines, caplines * sizeof *lines);
				if (!lines) die("oom");
			}
			lines[nlines++] = xstrdup(line);
			continue;
		}
		/* complete case read */
		in_case = 0;
		if (draining) {
			fprintf(out, "skip %s\n", caseid);
		} else if (forkmode) {
			pid_t pid;
			int st = 0;
			fprintf(out, "begin %s\n", caseid);
			fflush(out);
			pid = fork();
			if (pid < 0) die("fork");
			if (pid == 0) {
				if (horizon > 0) alarm((unsigned)horizon);
				unbuffered = 1;
				case_begin();
				run_case_lines();
				case_end();
				fflush(out);
				_exit(0);
			}
			while (waitpid(pid, &st, 0) < 0 && errno == EINTR) ;
			if (WIFSIGNALED(st)) fprintf(out, "crash sig=%d\n", WTERMSIG(st));
			else if (WEXITSTATUS(st) != 0) fprintf(out, "crash exit=%d\n", WEXITSTATUS(st));
			fprintf(out, "end %s\n", caseid);
		} else {
			fprintf(out, "begin %s\n", caseid);
			if (unbuffered) fflush(out);
			case_begin();
			run_case_lines();
			if (!case_end())
				draining = 1;	/* not pristine: answer nothing more until the explorer restarts us */
			fprintf(out, "end %s\n", caseid);
		}
		fflush(out);
		{
			size_t i;
			for (i = 0; i < nlines; i++) free(lines[i]);
			nlines = 0;
		}
	}
	fflush(out);
	return 0;
}

/* ------------------------------------------------------------------ */
/* bulk mode: product enumeration inside the driver (C02 byte strings) */
/*
 * sweep <schema> <flags> <mode> <len> <progressfile> <resume|-> <nprefix> <p0> <p1> ... -- <sym0> <sym1> ...
 *   mode: buf | fp
 *   enumerates every string  prefix ++ w  with |prefix ++ w| == len, w over the symbol alphabet, in
 *   lexicographic order of symbol indices; <resume> is a comma separated index vector after which to
 *   resume (exclusive) or '-'.  For each string: init, parse, dump walk, print, probe parse, free, hygiene.
 *   Emits "anom <indices> <what>" for every case that is not clean and a final
 *   "swept n=<cases> rc0=<n> rc1=<n> rcother=<n> hash=<h>".  The index vector of the case in flight is
 *   kept in <progressfile> (mmap) so that a crash is attributable.
 */
static int null_pff(cfg_t *c, cfg_opt_t *o) { (void)c; (void)o; return 0; }

static void quiet_err(cfg_t *cfg, const char *fmt, va_list ap) { (void)cfg; (void)fmt; (void)ap; }

static unsigned long sweep_diags;
static void count_err(cfg_t *cfg, const char *fmt, va_list ap) { (void)cfg; (void)fmt; (void)ap; sweep_diags++; }

static void sweep(char **t, int ntok)
{
	struct schema *sch;
	cfg_flag_t flags;
	int fpmode, len, npre, i, nsym, pos;
	int idx[64];
	char *syms[128];
	size_t symlen[128];
	char *progress = NULL;
	int pfd;
	unsigned long ncase = 0, rc0 = 0, rc1 = 0, rco = 0, hash = 1469598103UL, nanom = 0;
	int resume[64], have_resume = 0;
	char text[4096];
	FILE *devnull = fopen("/dev/null", "w");

	if (ntok < 9) die("sweep: arguments");
	sch = find_schema(t[1]);
	if (!sch) die("sweep: schema");
	flags = (cfg_flag_t)strtol(t[2], NULL, 0);
	fpmode = !strcmp(t[3], "fp");
	len = atoi(t[4]);
	if (len > 60) die("sweep: len");
	pfd = open(t[5], O_RDWR | O_CREAT, 0666);
	if (pfd < 0 || ftruncate(pfd, 512)) die("sweep: progress file");
	progress = mmap(NULL, 512, PROT_READ | PROT_WRITE, MAP_SHARED, pfd, 0);
	if (progress == MAP_FAILED) die("sweep: mmap");
	if (strcmp(t[6], "-")) {
		char *c = t[6];
		int k = 0;
		while (*c && k < 64) { resume[k++] = (int)strtol(c, &c, 10); if (*c == ',') c++; }
		if (k != len) die("sweep: resume vector length");
		have_resume = 1;
	}
	npre = atoi(t[7]);
	pos = 8;
	for (i = 0; i < npre; i++) idx[i] = atoi(t[pos++]);
	if (strcmp(t[pos++], "--")) die("sweep: --");
	nsym = 0;
	while (pos < ntok && nsym < 128) { syms[nsym] = dec(t[pos++], &symlen[nsym]); nsym++; }
	for (i = npre; i < len; i++) idx[i] = 0;
	if (have_resume) {
		for (i = 0; i < len; i++) idx[i] = resume[i];
		goto advance;
	}
	for (;;) {
		size_t tl = 0;
		cfg_t *cfg;
		int rc, rc2, clean;
		struct vf_lexsnap ls;
		{
			int k, w = 0;
			for (k = 0; k < len; k++) w += snprintf(progress + w, 512 - (size_t)w, k ? ",%d" : "%d", idx[k]);
			progress[w] = 0;
		}
		for (i = 0; i < len; i++) {
			memcpy(text + tl, syms[idx[i]], symlen[idx[i]]);
			tl += symlen[idx[i]];
		}
		text[tl] = 0;
		errno = 0;
		vf_rt_reset_counters();
		sweep_diags = 0;
		cfg = cfg_init(sch->opts, flags);
		if (!cfg) die("sweep: init");
		cfg_set_error_function(cfg, count_err);
		if (fpmode) {
			int fd = memfd_create("vfinput", 0);
			FILE *fp;
			if (fd < 0 || (tl && write(fd, text, tl) != (ssize_t)tl)) die("memfd");
			lseek(fd, 0, SEEK_SET);
			fp = fdopen(fd, "r");
			rc = cfg_parse_fp(cfg, fp);
			fclose(fp);
		} else
			rc = cfg_parse_buf(cfg, text);
		{ unsigned long d = sweep_diags; cfg_set_error_function(cfg, quiet_err); sweep_diags = d; }
		/* the context must still be usable: walk, print, parse again, free */
		cfg_set_print_filter_func(cfg, null_pff);
		cfg_print(cfg, devnull);
		rc2 = cfg_parse_buf(cfg, "");
		cfg_free(cfg);
		reset_slots(sch);
		vf_lex_snapshot(&ls);
		{
			size_t blocks = vf_live_blocks(-1);
			long so = stdout_bytes();
			int leak = blocks != 0;
			/* conditions after which this process cannot be trusted any more */
			clean = !(ls.yy_start > 1 || ls.has_buffer || ls.inc_ptr || ls.have_q || vf_live_files() ||
				  pv_badrel || vf_foreign_free || vf_double_close);
			ncase++;
			if (rc == 0) rc0++; else if (rc == 1) rc1++; else rco++;
			hash = (hash ^ (unsigned long)(rc + 2)) * 1099511628211UL;
			if (!clean || leak || pv_live || so != 0 || rc2 != 0 || (rc != 0 && rc != 1) || (rc == 1 && sweep_diags == 0)) {
				nanom++;
				fprintf(out, "anom %s rc=%d rc2=%d diags=%lu lex=%d,%d,%d,%d blocks=%zu files=%zu ptr=%ld,%ld foreign=%lu stdout=%ld text=",
					progress, rc, rc2, sweep_diags, ls.yy_start, ls.has_buffer, ls.inc_ptr, ls.have_q, blocks, vf_live_files(),
					pv_live, pv_badrel, vf_foreign_free, so);
				enc_n(out, text, tl);
				fputc('\n', out);
				if (so != 0) { if (ftruncate(stdout_memfd, 0)) {} lseek(stdout_memfd, 0, SEEK_SET); }
				if (!clean || leak || pv_live) {
					/* the process is no longer pristine: stop here, the explorer resumes in a fresh process */
					fprintf(out, "swept n=%lu rc0=%lu rc1=%lu rcother=%lu hash=%lx anom=%lu STOPPED\n", ncase, rc0, rc1, rco, hash, nanom);
					goto done;
				}
			}
		}
advance:
		for (i = len - 1; i >= npre; i--) {
			if (++idx[i] < nsym) break;
			idx[i] = 0;
		}
		if (i < npre) break;
	}
	fprintf(out, "swept n=%lu rc0=%lu rc1=%lu rcother=%lu hash=%lx anom=%lu DONE\n", ncase, rc0, rc1, rco, hash, nanom);
done:
	for (i = 0; i < nsym; i++) free(syms[i]);
	munmap(progress, 512);
	close(pfd);
	fclose(devnull);
}
