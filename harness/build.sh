#!/bin/sh
# build.sh <variant>...|all  - (re)build cfgdrv from /repo's current working tree.
# Variants: asan plain msan.  A variant is rebuilt only when the hash of the
# library sources, the harness sources and the flags changed.
set -e
HERE="$(cd "$(dirname "$0")" && pwd)"
VERIF="$(dirname "$HERE")"
REPO="${VERIF_REPO:-/repo}"
B="${VERIF_BUILD:-$VERIF/build}"
mkdir -p "$B"

DEFS="-include $HERE/vf_defs.h"

build_variant() {
	v="$1"
	case "$v" in
	asan)  CC=gcc;   FL="-O1 -g -fno-omit-frame-pointer -fsanitize=address,undefined -fno-sanitize-recover=undefined -fno-sanitize=nonnull-attribute" ;;
	plain) CC=gcc;   FL="-O2 -g" ;;
	msan)  CC=clang; FL="-O1 -g -fno-omit-frame-pointer -fsanitize=memory -fsanitize-memory-track-origins" ;;
	cov)   CC=gcc;   FL="-O0 -g --coverage" ;;
	*) echo "unknown variant $v" >&2; exit 2 ;;
	esac
	D="$B/$v"
	mkdir -p "$D"
	H=$( (cat "$REPO/src/confuse.c" "$REPO/src/confuse.h" "$REPO/src/compat.h" "$REPO/src/lexer.l" \
		"$HERE/cfgdrv.c" "$HERE/vf_rt.c" "$HERE/vf_rt.h" "$HERE/vf_shim.h" "$HERE/vf_defs.h" "$HERE/vf_lexpeek.c" "$HERE/yy_ec.py" "$HERE/build.sh"; echo "$CC $FL $DEFS") | sha1sum | cut -d' ' -f1)
	if [ -x "$D/cfgdrv" ] && [ "$(cat "$D/stamp" 2>/dev/null)" = "$H" ]; then
		return 0
	fi
	rm -f "$D/stamp"; rm -rf "$D"/tmp.*
	T="$D/tmp.$$"
	[ "$v" = cov ] && { T="$D/obj"; rm -rf "$T"; }
	mkdir -p "$T"
	flex -Pcfg_yy -o "$T/lexer.c" "$REPO/src/lexer.l"
	printf '#include "lexer.c"\n#include "vf_lexpeek.c"\n' > "$T/lexer_tu.c"
	# library translation units: shim force-included
	$CC $FL $DEFS -w -I"$REPO/src" -I"$HERE" -I"$T" -include "$HERE/vf_shim.h" -c "$REPO/src/confuse.c" -o "$T/confuse.o"
	$CC $FL $DEFS -w -I"$REPO/src" -I"$HERE" -I"$T" -include "$HERE/vf_shim.h" -c "$T/lexer_tu.c" -o "$T/lexer.o"
	# harness translation units: no shim
	$CC $FL -Wall -I"$REPO/src" -I"$HERE" -c "$HERE/vf_rt.c" -o "$T/vf_rt.o"
	$CC $FL -Wall -I"$REPO/src" -I"$HERE" -c "$HERE/cfgdrv.c" -o "$T/cfgdrv.o"
	$CC $FL "$T/confuse.o" "$T/lexer.o" "$T/vf_rt.o" "$T/cfgdrv.o" -o "$T/cfgdrv"
	# the equivalence classes of the generated scanner, for the byte alphabets (C02/C03)
	python3 "$HERE/yy_ec.py" "$T/lexer.c" > "$T/yy_ec.json"
	cp "$T/cfgdrv" "$D/cfgdrv.new" && mv "$D/cfgdrv.new" "$D/cfgdrv"
	cp "$T/yy_ec.json" "$D/yy_ec.json"
	cp "$T/lexer.c" "$D/lexer.c"
	[ "$v" = cov ] || rm -rf "$T"
	echo "$H" > "$D/stamp"
}

[ $# -ge 1 ] || set -- all
for v in "$@"; do
	if [ "$v" = all ]; then
		build_variant asan & p1=$!
		build_variant plain & p2=$!
		wait $p1; wait $p2
	else
		build_variant "$v"
	fi
done
