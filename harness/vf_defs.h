/* vf_defs.h - what /repo/config.h (generated, git-ignored) would define; NLS stays off */
#ifndef VF_DEFS_H
#define VF_DEFS_H
#ifndef _GNU_SOURCE
# define _GNU_SOURCE
#endif
#define HAVE_STRDUP 1
#define HAVE_STRNDUP 1
#define HAVE_STRCASECMP 1
#define HAVE_FMEMOPEN 1
#define HAVE_REALLOCARRAY 1
#define HAVE_UNISTD_H 1
#define HAVE_STRING_H 1
#define HAVE_STRINGS_H 1
#define HAVE_SYS_STAT_H 1
#define PACKAGE_VERSION "verif"
#define PACKAGE_STRING "libConfuse verif"
#define PACKAGE "confuse"
#endif
