/*
 * vf_lexpeek.c - textually included at the end of the generated scanner's
 * translation unit, so it can read flex's file-static variables.  This is
 * the only access to private state the harness has.
 */
#include "vf_rt.h"

void vf_lex_snapshot(struct vf_lexsnap *s)
{
	s->yy_start = yy_start;
	s->yy_init = yy_init;
	s->has_buffer = (yy_buffer_stack && yy_buffer_stack[yy_buffer_stack_top]) ? 1 : 0;
	s->stack_top = (int)yy_buffer_stack_top;
	s->inc_ptr = cfg_include_stack_ptr;
	s->have_q = cfg_qstring != NULL;
	s->q_index = (unsigned long)qstring_index;
	s->q_len = (unsigned long)qstring_len;
}
