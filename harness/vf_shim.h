/*
 * vf_shim.h - force-included (-include) into the two library translation
 * units (confuse.c and the generated lexer) and into nothing else.
 *
 * It re-routes the allocator, stdio open/close, the passwd lookups and
 * exit/abort to the verification runtime (vf_rt.c) without touching /repo.
 * The system headers that declare the shadowed functions are included first
 * so that their prototypes are parsed before the macros exist.
 */
#ifndef VF_SHIM_H
#define VF_SHIM_H

#ifndef _GNU_SOURCE
# define _GNU_SOURCE
#endif
#include <sys/types.h>
#include <sys/stat.h>
#include <stdio.h>
#include <stdlib.h>
#include <string.h>
#include <strings.h>
#include <stdarg.h>
#include <errno.h>
#include <assert.h>
#include <ctype.h>
#include <pwd.h>
#include <unistd.h>

void *vf_malloc(size_t n, const char *file, const char *func, int line);
void *vf_calloc(size_t a, size_t b, const char *file, const char *func, int line);
void *vf_realloc(void *p, size_t n, const char *file, const char *func, int line);
void *vf_reallocarray(void *p, size_t a, size_t b, const char *file, const char *func, int line);
char *vf_strdup(const char *s, const char *file, const char *func, int line);
char *vf_strndup(const char *s, size_t n, const char *file, const char *func, int line);
void  vf_free(void *p, const char *file, const char *func, int line);
FILE *vf_fopen(const char *path, const char *mode, const char *file, const char *func, int line);
FILE *vf_fmemopen(void *buf, size_t size, const char *mode, const char *file, const char *func, int line);
int   vf_fclose(FILE *fp, const char *file, const char *func, int line);
struct passwd *vf_getpwnam(const char *name);
struct passwd *vf_getpwuid(uid_t uid);
void  vf_exit(int code, const char *file, const char *func, int line) __attribute__((noreturn));
void  vf_abort(const char *file, const char *func, int line) __attribute__((noreturn));

#define malloc(n)            vf_malloc((n), __FILE__, __func__, __LINE__)
#define calloc(a, b)         vf_calloc((a), (b), __FILE__, __func__, __LINE__)
#define realloc(p, n)        vf_realloc((p), (n), __FILE__, __func__, __LINE__)
#define reallocarray(p, a, b) vf_reallocarray((p), (a), (b), __FILE__, __func__, __LINE__)
#define strdup(s)            vf_strdup((s), __FILE__, __func__, __LINE__)
#define strndup(s, n)        vf_strndup((s), (n), __FILE__, __func__, __LINE__)
#define free(p)              vf_free((p), __FILE__, __func__, __LINE__)
#define fopen(p, m)          vf_fopen((p), (m), __FILE__, __func__, __LINE__)
#define fmemopen(b, s, m)    vf_fmemopen((b), (s), (m), __FILE__, __func__, __LINE__)
#define fclose(f)            vf_fclose((f), __FILE__, __func__, __LINE__)
#define getpwnam(n)          vf_getpwnam(n)
#define getpwuid(u)          vf_getpwuid(u)
#define exit(c)              vf_exit((c), __FILE__, __func__, __LINE__)
#define abort()              vf_abort(__FILE__, __func__, __LINE__)

#endif
