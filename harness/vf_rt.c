/*
 * vf_rt.c - verification runtime behind vf_shim.h.
 *
 * Keeps a registry of live blocks and FILE handles the library acquired,
 * counts allocation requests per site class, can make the k-th request of
 * the library source proper fail, can pre-fill fresh memory, and provides a
 * deterministic passwd table.  The real allocator underneath is whatever the
 * build links (ASan's, MSan's or libc's), so redzones/quarantine still work.
 */
#define _GNU_SOURCE
#include <stdio.h>
#include <stdlib.h>
#include <string.h>
#include <errno.h>
#include <pwd.h>
#include <unistd.h>
#include "vf_rt.h"

unsigned long vf_req[2];
unsigned long vf_fail_at, vf_fail_at2, vf_fail_count, vf_failed;
const char *vf_failed_site;
int vf_fill = -1;
unsigned long vf_foreign_free, vf_double_close;
int vf_exit_code;
static unsigned long serial;

/* ---- block registry: open addressing on the address ---- */
static struct vf_block *tab;
static size_t tabsz, tabn, tabtomb;
#define TOMB ((void *)1)

static size_t hashp(void *p) { unsigned long x = (unsigned long)p; x ^= x >> 17; x *= 0x9E3779B97F4A7C15UL; x ^= x >> 29; return (size_t)x; }

static void tab_insert_raw(struct vf_block *t, size_t sz, const struct vf_block *b)
{
	size_t i = hashp(b->addr) & (sz - 1);
	while (t[i].addr && t[i].addr != TOMB)
		i = (i + 1) & (sz - 1);
	t[i] = *b;
}

static void tab_grow(void)
{
	size_t nsz = tabsz ? tabsz : 1024, i;
	struct vf_block *nt;
	if (tabsz && (tabn + 1) * 4 >= tabsz)
		nsz = tabsz * 2;
	nt = calloc(nsz, sizeof(*nt));
	if (!nt) { fprintf(stderr, "vf_rt: out of memory for registry\n"); _exit(97); }
	for (i = 0; i < tabsz; i++)
		if (tab[i].addr && tab[i].addr != TOMB)
			tab_insert_raw(nt, nsz, &tab[i]);
	free(tab);
	tab = nt; tabsz = nsz; tabtomb = 0;
}

static void reg_add(void *p, size_t n, int cls, const char *file, const char *func, int line)
{
	struct vf_block b;
	if (!p) return;
	if (!tabsz || (tabn + tabtomb + 1) * 2 >= tabsz)
		tab_grow();
	b.addr = p; b.size = n; b.file = file; b.func = func; b.line = line; b.cls = cls; b.serial = ++serial;
	tab_insert_raw(tab, tabsz, &b);
	tabn++;
}

static struct vf_block *reg_find(void *p)
{
	size_t i;
	if (!tabsz || !p) return NULL;
	i = hashp(p) & (tabsz - 1);
	while (tab[i].addr) {
		if (tab[i].addr == p) return &tab[i];
		i = (i + 1) & (tabsz - 1);
	}
	return NULL;
}

static int reg_del(void *p)
{
	struct vf_block *b = reg_find(p);
	if (!b) return 0;
	b->addr = TOMB; tabn--; tabtomb++;
	return 1;
}

size_t vf_live_blocks(int cls)
{
	size_t i, n = 0;
	for (i = 0; i < tabsz; i++)
		if (tab[i].addr && tab[i].addr != TOMB && (cls < 0 || tab[i].cls == cls)) n++;
	return n;
}

size_t vf_list_blocks(struct vf_block *out, size_t max)
{
	size_t i, n = 0;
	for (i = 0; i < tabsz && n < max; i++)
		if (tab[i].addr && tab[i].addr != TOMB) out[n++] = tab[i];
	return n;
}

void vf_rt_reset_counters(void)
{
	vf_req[0] = vf_req[1] = 0;
	vf_fail_at = vf_fail_at2 = vf_fail_count = vf_failed = 0;
	vf_failed_site = NULL;
	vf_foreign_free = vf_double_close = 0;
	vf_fill = -1;
}

void vf_arm_fail(unsigned long k, unsigned long k2)
{
	vf_fail_at = k; vf_fail_at2 = k2; vf_fail_count = 0; vf_failed = 0; vf_failed_site = NULL;
}

static int site_class(const char *file)
{
	const char *b = strrchr(file, '/');
	b = b ? b + 1 : file;
	return strcmp(b, "confuse.c") == 0 ? VF_CLASS_LIB : VF_CLASS_SCAN;
}

static char sitebuf[256];
/* returns 1 when this request must fail */
static int request(int cls, const char *file, const char *func, int line)
{
	vf_req[cls]++;
	if (cls == VF_CLASS_LIB && (vf_fail_at || vf_fail_at2)) {
		vf_fail_count++;
		if (vf_fail_count == vf_fail_at || vf_fail_count == vf_fail_at2) {
			vf_failed++;
			snprintf(sitebuf, sizeof sitebuf, "%s:%d", func, line);
			vf_failed_site = sitebuf;
			(void)file;
			errno = ENOMEM;
			return 1;
		}
	}
	return 0;
}

void *vf_malloc(size_t n, const char *file, const char *func, int line)
{
	int cls = site_class(file);
	void *p;
	if (request(cls, file, func, line)) return NULL;
	p = malloc(n);
	if (p && vf_fill >= 0) memset(p, vf_fill, n);
	reg_add(p, n, cls, file, func, line);
	return p;
}

void *vf_calloc(size_t a, size_t b, const char *file, const char *func, int line)
{
	int cls = site_class(file);
	void *p;
	if (request(cls, file, func, line)) return NULL;
	p = calloc(a, b);
	reg_add(p, a * b, cls, file, func, line);
	return p;
}

void *vf_realloc(void *old, size_t n, const char *file, const char *func, int line)
{
	int cls = site_class(file);
	struct vf_block *b;
	size_t oldsz = 0;
	void *p;
	if (request(cls, file, func, line)) return NULL;
	b = reg_find(old);
	if (old && !b) vf_foreign_free++;
	if (b) oldsz = b->size;
	if (old && b) reg_del(old);
	p = realloc(old, n);
	if (!p && n) { /* real failure: old block still live */
		if (old) reg_add(old, oldsz, cls, file, func, line);
		return NULL;
	}
	if (p && vf_fill >= 0 && n > oldsz) memset((char *)p + oldsz, vf_fill, n - oldsz);
	reg_add(p, n, cls, file, func, line);
	return p;
}

void *vf_reallocarray(void *old, size_t a, size_t b, const char *file, const char *func, int line)
{
	if (b && a > (size_t)-1 / b) { errno = ENOMEM; return NULL; }
	return vf_realloc(old, a * b, file, func, line);
}

char *vf_strdup(const char *s, const char *file, const char *func, int line)
{
	int cls = site_class(file);
	char *p;
	if (request(cls, file, func, line)) return NULL;
	p = strdup(s);
	reg_add(p, p ? strlen(p) + 1 : 0, cls, file, func, line);
	return p;
}

char *vf_strndup(const char *s, size_t n, const char *file, const char *func, int line)
{
	int cls = site_class(file);
	char *p;
	if (request(cls, file, func, line)) return NULL;
	p = strndup(s, n);
	reg_add(p, p ? strlen(p) + 1 : 0, cls, file, func, line);
	return p;
}

void vf_free(void *p, const char *file, const char *func, int line)
{
	(void)file; (void)func; (void)line;
	if (!p) return;
	if (!reg_del(p))
		vf_foreign_free++;	/* not ours: let the real allocator (ASan) judge it */
	free(p);
}

/* ---- FILE handles ---- */
#define MAXF 256
static FILE *files[MAXF];
static size_t nfiles;

static void file_add(FILE *fp) { if (fp && nfiles < MAXF) files[nfiles++] = fp; }
static int file_del(FILE *fp)
{
	size_t i;
	for (i = 0; i < nfiles; i++)
		if (files[i] == fp) { files[i] = files[--nfiles]; return 1; }
	return 0;
}
size_t vf_live_files(void) { return nfiles; }

FILE *vf_fopen(const char *path, const char *mode, const char *file, const char *func, int line)
{
	FILE *fp;
	(void)file; (void)func; (void)line;
	fp = fopen(path, mode);
	file_add(fp);
	return fp;
}

FILE *vf_fmemopen(void *buf, size_t size, const char *mode, const char *file, const char *func, int line)
{
	FILE *fp;
	(void)file; (void)func; (void)line;
	fp = fmemopen(buf, size, mode);
	file_add(fp);
	return fp;
}

int vf_fclose(FILE *fp, const char *file, const char *func, int line)
{
	(void)file; (void)func; (void)line;
	if (!file_del(fp))
		vf_double_close++;	/* closing a handle the library did not open (or twice) */
	return fclose(fp);
}

/* ---- passwd seam ---- */
#define MAXPW 8
static struct { char user[32]; char home[512]; } pw[MAXPW];
static int npw, pw_real;
static char me[32];
static struct passwd pwbuf;

void vf_pw_clear(void) { npw = 0; me[0] = 0; pw_real = 0; }
void vf_pw_real(int on) { pw_real = on; }
void vf_pw_add(const char *user, const char *home)
{
	if (npw >= MAXPW) return;
	snprintf(pw[npw].user, sizeof pw[npw].user, "%s", user);
	snprintf(pw[npw].home, sizeof pw[npw].home, "%s", home);
	npw++;
}
void vf_pw_me(const char *user) { snprintf(me, sizeof me, "%s", user); }

struct passwd *vf_getpwnam(const char *name)
{
	int i;
	if (pw_real) return getpwnam(name);
	for (i = 0; i < npw; i++)
		if (strcmp(pw[i].user, name) == 0) {
			memset(&pwbuf, 0, sizeof pwbuf);
			pwbuf.pw_name = pw[i].user;
			pwbuf.pw_dir = pw[i].home;
			return &pwbuf;
		}
	return NULL;
}

struct passwd *vf_getpwuid(uid_t uid)
{
	if (pw_real) return getpwuid(uid);
	if (!me[0]) return NULL;
	return vf_getpwnam(me);
}

/* ---- exit / abort from inside the library ---- */
void vf_exit(int code, const char *file, const char *func, int line)
{
	vf_exit_code = code;
	vf_drv_on_exit("exit", code, file, func, line);
	_exit(90);
}

void vf_abort(const char *file, const char *func, int line)
{
	vf_drv_on_exit("abort", 0, file, func, line);
	_exit(91);
}
