"""refpath.py - the path mini-language of the by-path accessors (C11).

    path  := step ('|' step)*
    step  := name | name '=' index | name '=' title | name "='" quoted "'"
  An unqualified step into a multi section means its first instance.  The last step of an option
  path is a plain name; the last step of a section path may be qualified.

resolve(store, path, want) -> ('opt', address, optstate) | ('sec', address, secstate) | NOTFOUND | UNSPEC
address is the stepwise address as the driver prints it: A/name.index/.../name
"""
from engine import enc

NOTFOUND = 'NOTFOUND'
UNSPEC = 'UNSPEC'


def _n(name):
    return enc(name)[1:]


def split_steps(path):
    """-> list of (name, qualifier or None, quoted flag) or NOTFOUND / UNSPEC"""
    if not path:
        return NOTFOUND
    if b'\0' in path:
        return UNSPEC
    steps = []
    i, n = 0, len(path)
    if path[0:1] == b'|' or path[-1:] == b'|':
        # stray separator at either end (a path that consists of separators only as well)
        return NOTFOUND
    while i < n:
        j = i
        while j < n and path[j] not in b'|=':
            j += 1
        name = path[i:j]
        if not name:
            if j < n and path[j:j + 1] == b'|':
                return UNSPEC      # duplicated separator in the middle
            return NOTFOUND        # stray '='
        if j >= n:
            steps.append((name, None, False))
            break
        if path[j:j + 1] == b'|':
            steps.append((name, None, False))
            i = j + 1
            if i < n and path[i:i + 1] == b'|':
                return UNSPEC
            continue
        # '=' qualifier
        k = j + 1
        if path[k:k + 1] == b"'":
            out = bytearray()
            k += 1
            closed = False
            while k < n:
                c = path[k]
                if c == 0x27:
                    closed = True
                    k += 1
                    break
                if c == 0x5C:
                    if k + 1 < n and path[k + 1] in (0x27, 0x5C):
                        out.append(path[k + 1])
                        k += 2
                        continue
                    return NOTFOUND    # bad escape
                out.append(c)
                k += 1
            if not closed:
                return NOTFOUND        # unbalanced quote
            if k < n and path[k:k + 1] != b'|':
                return UNSPEC          # characters glued to the closing quote
            steps.append((name, bytes(out), True))
            i = k + 1
            if k < n and i >= n:
                return NOTFOUND        # trailing separator (already excluded above)
            if i < n and path[i:i + 1] == b'|':
                return UNSPEC
            continue
        e = k
        while e < n and path[e:e + 1] != b'|':
            e += 1
        qual = path[k:e]
        if not qual:
            return NOTFOUND            # 'name=' with nothing after it
        steps.append((name, qual, False))
        i = e + 1
        if i < n and path[i:i + 1] == b'|':
            return UNSPEC
    return steps


def _index(qual):
    """decimal index or NOTFOUND / UNSPEC"""
    if qual.isdigit():
        if len(qual) > 1 and qual[0:1] == b'0':
            return UNSPEC      # octal-looking
        if len(qual) > 9:
            return NOTFOUND
        return int(qual)
    if qual[0:1] in (b'+', b' ', b'\t') or qual.lower().startswith(b'0x') or qual.lower().startswith(b'-0'):
        return UNSPEC
    if qual[0:1] == b'-' and qual[1:].isdigit():
        return NOTFOUND
    return NOTFOUND


def enter(sec, name, qual, quoted, addr):
    """step into a section: -> (secstate, address, optstate) or NOTFOUND / UNSPEC"""
    o = sec.find(name)
    if o is None or o.decl.kind != 'sec':
        return NOTFOUND
    a = '%s/%s' % (addr, _n(o.decl.name))
    if qual is None:
        if not o.values:
            return NOTFOUND
        return (o.values[0], a + '.0', o)
    if not o.decl.has('M'):
        return NOTFOUND        # qualifier on a single section
    if o.decl.has('T'):
        for k, s in enumerate(o.values):
            if s.title == qual:
                return (s, a + '.%d' % k, o)
            if s.title is not None and s.title.lower() == qual.lower():
                # letter case: the same title in a case-insensitive context (ASCII letters), another one otherwise
                if not sec.nocase:
                    continue
                if any(c > 127 for c in s.title + qual):
                    return UNSPEC
                return (s, a + '.%d' % k, o)
        return NOTFOUND
    if quoted:
        return UNSPEC          # a quoted index
    idx = _index(qual)
    if idx in (NOTFOUND, UNSPEC):
        return idx
    if idx >= len(o.values):
        return NOTFOUND
    return (o.values[idx], a + '.%d' % idx, o)


def resolve(store, path, want='opt', ctx='A'):
    steps = split_steps(path)
    if steps in (NOTFOUND, UNSPEC):
        return steps
    sec, addr = store, ctx
    for k, (name, qual, quoted) in enumerate(steps):
        last = k == len(steps) - 1
        if last and want == 'opt':
            if qual is not None:
                # a qualifier on the final step of an option path: the step must then be a section
                # and nothing follows it - there is no option to return
                r = enter(sec, name, qual, quoted, addr)
                return UNSPEC if r == UNSPEC else NOTFOUND
            o = sec.find(name)
            if o is None:
                return NOTFOUND
            return ('opt', '%s/%s' % (addr, _n(o.decl.name)), o)
        r = enter(sec, name, qual, quoted, addr)
        if r in (NOTFOUND, UNSPEC):
            return r
        sec, addr, o = r
        if last:
            return ('sec', addr, sec, o)
    return NOTFOUND


def quote_title(t):
    return b"'" + t.replace(b'\\', b'\\\\').replace(b"'", b"\\'") + b"'"
