#!/usr/bin/env python3
"""C13 - including a file equals reading its text in place.

Accepted texts of <= 4 items; every way of moving one contiguous run of items into a file,
recursively, and chains of depth 1 .. limit+2; every placement of the files (relative, absolute,
search-path directory 1 or 2); an error injected inside each file and after each include returns;
failing targets (missing, directory, over-deep chain, self-include); histories fail^k then succeed.
Oracle: dump equals the flat text's dump; diagnostics carry the right file and line on both sides of
the include; failures are reported parse errors; afterwards the include stack is empty, descriptors
are back and a full-depth include still works."""
import sys, os, time, itertools
sys.path.insert(0, os.path.dirname(os.path.abspath(__file__)))
import engine
from engine import Case, enc, dec, ShardStats, get_driver
from model import Opt, Schema, dump_sec, ACCEPT, REJECT, UNSPEC
import reftext

PID = 'C13'
I2 = Schema('I2', [Opt('func', 'include', '', None, 'i'), Opt('int', 'i', '', 5), Opt('int', 'l', 'L', [b'1']), Opt('str', 's', '', b'd'),
                   Opt('sec', 'm', 'M', sub=[Opt('int', 'x', '', 1), Opt('func', 'include', '', None, 'i'), Opt('int', 'ml', 'L', [b'1', b'2'])]),     # ml: a list default is scanned from memory while an include may be open
                   Opt('sec', 'sec', '', sub=[Opt('int', 'x', '', 1), Opt('int', 'l', 'L', [b'1']), Opt('func', 'include', '', None, 'i')])])   # include is declared inside the sections too
POOL = [b'i = 7', b'l += {2}', b's = "q r"', b'm { x = 3 }', b'sec { x = 4 l += {9} }', b'l = {5}', b'i = 8']
LIMIT = 10
PLACEMENTS = ['rel', 'abs', 'sp1', 'sp2', 'abs+path']


def texts(quick):
    out = []
    P5 = POOL[:5]
    for n in (1, 2, 3):
        out += [list(t) for t in itertools.product(P5, repeat=n)]
    P3 = [POOL[1], POOL[3], POOL[5]]
    out += [list(t) for t in itertools.product(P3, repeat=4)]
    if not quick:
        out += [list(t) for t in itertools.product(POOL, repeat=3) if list(t) not in out]
    return out


def splits(items, depth, fileno=1):
    """yield (main_items, files) where files: name -> list of items; one contiguous run moved per level"""
    yield items, {}
    if depth == 0:
        return
    n = len(items)
    for a in range(n):
        for b in range(a + 1, n + 1):
            run = items[a:b]
            name = b'f%d.conf' % fileno
            for sub_main, sub_files in splits(run, depth - 1, fileno + 1):
                files = dict(sub_files)
                files[name] = sub_main
                yield items[:a] + [b'include("' + name + b'")'] + items[b:], files


def chain(items, d):
    """the whole text behind a chain of d nested includes"""
    files = {}
    for k in range(1, d + 1):
        files[b'c%d.conf' % k] = [b'include("c%d.conf")' % (k + 1)] if k < d else list(items)
    return [b'include("c1.conf")'], files


class World:
    """file placement: how a written name resolves, which driver lines create it"""

    def __init__(self, root, placement):
        self.root = root.encode()
        self.placement = placement

    def written(self, name):
        if self.placement in ('abs', 'abs+path'):
            return self.root + b'/' + name
        return name

    def resolved(self, name):
        """the name the library reports in diagnostics"""
        if self.placement == 'sp1':
            return self.root + b'/sp1/' + name
        if self.placement == 'sp2':
            return self.root + b'/sp2/' + name
        return self.written(name)

    def disk(self, name):
        if self.placement == 'sp1':
            return b'sp1/' + name
        if self.placement == 'sp2':
            return b'sp2/' + name
        return name

    def setup(self):
        l = ['wipe', 'mkdir ' + enc(b'sp1'), 'mkdir ' + enc(b'sp2'), 'mkdir ' + enc(b'adir')]
        return l

    def paths(self):
        if self.placement in ('sp1', 'sp2', 'abs+path'):
            return ['addpath A ' + enc(self.root + b'/sp1'), 'addpath A ' + enc(self.root + b'/sp2')]
        return []


def render(items, world, sep=b'\n'):
    """items -> text; include("name") items get the written form of the name"""
    out = []
    for it in items:
        if it.startswith(b'include("') and it.endswith(b'")'):
            nm = it[9:-2]
            out.append(b'include("' + world.written(nm) + b'")')
        else:
            out.append(it)
    return sep.join(out)


def build(main_items, files, world):
    """-> (main text, {disk name: content}, model Files)"""
    main = render(main_items, world)
    disk, modelfiles = {}, {}
    for n, its in files.items():
        content = render(its, world) + b'\n'
        disk[world.disk(n)] = content
        modelfiles[world.resolved(n)] = content

    def resolver(name):
        # the written name -> the resolved name
        if name.startswith(world.root + b'/'):
            return name
        return world.resolved(name)
    return main, disk, reftext.Files(modelfiles, dirs=[world.resolved(b'adir'), b'adir', world.root + b'/adir'], resolver=resolver)


def run(st, drv, root, batch):
    """batch: list of (label, world, main_items, files, flat_items or None)"""
    cases, metas = [], []
    for label, world, main_items, files, flat in batch:
        if isinstance(main_items, bytes):
            # raw arrangement: exact bytes for the main text and for every file ({name: bytes})
            main = main_items
            for n in files:
                main = main.replace(b'@' + n, world.written(n))
            disk = {world.disk(n): c for n, c in files.items()}
            modelfiles = {world.resolved(n): c for n, c in files.items()}
            for n in list(files):
                for k in list(disk):
                    for m in files:
                        disk[k] = disk[k].replace(b'@' + m, world.written(m))
                for k in list(modelfiles):
                    for m in files:
                        modelfiles[k] = modelfiles[k].replace(b'@' + m, world.written(m))
            mf = reftext.Files(modelfiles, dirs=[], resolver=(lambda name, w=world: name if name.startswith(w.root + b'/') else w.resolved(name)))
            flat = [flat] if flat is not None else None
        else:
            main, disk, mf = build(main_items, files, world)
        m = reftext.meaning(I2, 0, main, files=mf)
        subdirs = sorted(set(os.path.dirname(k) for k in disk if b'/' in k.replace(b'sp1/', b'', 1).replace(b'sp2/', b'', 1)))
        mk = ['mkdir ' + enc(d_) for d_ in subdirs]        # names with a directory part live below the search directory too
        decoys = mk + (['mkdir ' + enc(b'sp1/' + n) for n in files if b'/' not in n] if world.placement == 'sp2' else [])      # a directory of the same name in the earlier search directory never matches
        if world.placement == 'sp1':
            # a regular file of the same name in a directory added later loses: the first directory in the order added wins
            decoys += ['mkfile %s %s' % (enc(b'sp2/' + n), enc(b'}}} not this one')) for n in files if b'/' not in n]
        lines = world.setup() + decoys + ['mkfile %s %s' % (enc(n), enc(c)) for n, c in disk.items()]
        if 'symbolic-link' in label:
            # every included file is reached through a symbolic link to the regular file that holds its text
            lines = world.setup() + decoys
            for n, c in disk.items():
                lines.append('mkfile %s %s' % (enc(n + b'.real'), enc(c)))
                lines.append('symlink %s %s' % (enc(world.root + b'/' + n + b'.real'), enc(n)))
        lines += ['init A I2 0'] + world.paths() + ['parse_buf A ' + enc(main), 'dump A 0', 'lexstate']
        c = Case(lines)
        cases.append(c)
        exp_dump = None
        if flat is not None:
            mflat = reftext.meaning(I2, 0, b'\n'.join(flat))
            exp_dump = 'dump ' + dump_sec(mflat.store, 0)
            if m.verdict == ACCEPT and 'dump ' + dump_sec(m.store, 0) != exp_dump:
                raise RuntimeError('machinery: the model itself does not satisfy include == in place')
            if mflat.verdict == ACCEPT and m.verdict not in (ACCEPT, UNSPEC):
                # vacuity guard: an arrangement with an accepted flat equivalent must itself be accepted by the model
                raise RuntimeError('machinery: %s is %s (%s) although its flat text is accepted' % (label, m.verdict, m.why))
        metas.append((label, m, exp_dump, main))
    results = drv.run(cases)
    for c, r, (label, m, exp_dump, main) in zip(cases, results, metas):
        st.evaluations += 1
        st.transitions += 1
        c.lines = ['root ' + enc(root)] + c.lines
        script = 'schema I2 %s\n%s' % (I2.spec(), c.script())
        if r.status in ('crash', 'hang'):
            st.violation('%s:%s' % (r.status, engine.sanitizer_summary(r.info)), script, 'a return code', engine.excerpt(r.info))
            continue
        rc = r.first('r parse_buf')
        dump = r.first('dump ')
        diags = r.all('diag ')
        lex = r.first('lex ') or ''
        hyg = r.first('hyg ') or ''
        st.outcome('%s %s' % (rc, diags[-1] if diags else ''))
        if ' inc=0 ' not in lex or ' files=0 ' not in hyg or ' fds=0 ' not in hyg:
            st.violation('include-resources-left:%s' % label, script, 'inc=0 files=0 fds=0', lex + ' | ' + hyg)
            continue
        if m.verdict == UNSPEC:
            st.unspec += 1
            continue
        st.validated += 1
        if m.verdict == ACCEPT:
            st.nontriv(main)
            if rc != 'r parse_buf 0':
                st.violation('include-rejected:%s' % label, script, 'r parse_buf 0', (rc or '') + ' ' + ' '.join(diags[:1]))
            elif exp_dump is not None and dump != exp_dump:
                st.violation('include-differs-from-inplace:%s' % label, script, exp_dump, dump or '')
            elif diags:
                st.violation('diagnostic-on-accepted:%s' % label, script, 'none', diags[0])
        else:
            if rc != 'r parse_buf 1':
                st.violation('failure-not-reported:%s' % label, script, 'r parse_buf 1 (%s)' % m.why, rc or '')
                continue
            if not diags:
                st.violation('failure-without-diagnostic:%s' % label, script, 'a diagnostic (%s)' % m.why, 'none')
                continue
            last = diags[-1].split(' ')
            f, line = dec(last[1]), int(last[2])
            want_f = m.err_file if m.err_file is not None else b'[buf]'
            if f != want_f:
                st.violation('wrong-file:%s' % label, script, '%r (%s)' % (want_f, m.why), diags[-1])
            elif m.err_lines and not (m.err_lines[0] <= line <= m.err_lines[1]):
                st.violation('wrong-line:%s' % label, script, 'line %d..%d of %r (%s)' % (m.err_lines[0], m.err_lines[1], want_f, m.why), diags[-1])
            st.nontriv(b'R' + main)
        if len(st.samples) < 1 and label.startswith('split') and len(main) > 30:
            st.samples.append({'placement': label, 'main': main.decode('latin-1'), 'expected': exp_dump})


def shard_splits(sh):
    text_list, depth, placements, inject, deadline = sh
    drv = get_driver('asan')
    drv.define_schema('I2', I2.spec())
    root = engine.worker_root() + '-c13'
    if drv.rootdir != root:
        drv.set_root(root)
    st = ShardStats('split trees')
    batch = []
    for items in text_list:
        for pl in placements:
            world = World(root, pl)
            for main_items, files in splits(items, depth):
                if not files:
                    continue
                batch.append(('split/' + pl, world, main_items, files, items))
                if inject:
                    # an error inside each file (at its end) and after each include returns
                    for fn in files:
                        f2 = dict(files)
                        f2[fn] = files[fn] + [b'i = x']
                        batch.append(('error-inside/' + pl, world, main_items, f2, None))
                        f3 = dict(files)
                        f3[fn] = [b'i = x'] + files[fn]
                        batch.append(('error-at-start-inside/' + pl, world, main_items, f3, None))
                    for k, it in enumerate(main_items):
                        if it.startswith(b'include('):
                            batch.append(('error-after-return/' + pl, world, main_items[:k + 1] + [b's = {'] + main_items[k + 1:], files, None))
                if len(batch) >= 150:
                    run(st, drv, root, batch)
                    batch = []
        if time.time() > deadline:
            st.complete = False
            break
    if batch:
        run(st, drv, root, batch)
    return st.result([drv])


SPECIAL = [
    # (label, main text with @name for file names, {name: exact content}, equivalent flat text)
    ('include-inside-section', b'sec {\ninclude("@f1.conf")\n}\ni = 7', {b'f1.conf': b'x = 4\nl += {9}\n'}, b'sec {\nx = 4\nl += {9}\n}\ni = 7'),
    ('include-inside-multi-section', b'm {\ninclude("@f1.conf")\n}\nm { include("@f1.conf") x = 5 }', {b'f1.conf': b'x = 3\n'}, b'm {\nx = 3\n}\nm { x = 3 x = 5 }'),
    ('append-across-boundary', b'l += {2}\ninclude("@f1.conf")\nl += {4}', {b'f1.conf': b'l += {3}\n'}, b'l += {2}\nl += {3}\nl += {4}'),
    ('assign-then-append-across', b'include("@f1.conf") l += {4}', {b'f1.conf': b'l = {}'}, b'l = {} l += {4}'),
    ('no-trailing-newline', b'include("@f1.conf") l += {2}', {b'f1.conf': b'i = 7'}, b'i = 7 l += {2}'),
    ('empty-file', b'i = 7 include("@f1.conf") l += {2}', {b'f1.conf': b''}, b'i = 7 l += {2}'),
    ('only-a-comment', b'i = 7\ninclude("@f1.conf")\nl += {2}', {b'f1.conf': b'# nothing here'}, b'i = 7\nl += {2}'),
    ('only-newlines', b'include("@f1.conf")\ni = x', {b'f1.conf': b'\n\n\n'}, None),
    ('item-split-across-boundary', b'include("@f1.conf") 7 l += {2}', {b'f1.conf': b'i ='}, b'i = 7 l += {2}'),
    ('list-split-across-boundary', b'include("@f1.conf") 3 }', {b'f1.conf': b'l = { 2 ,'}, b'l = { 2 , 3 }'),
    ('same-file-twice', b'include("@f1.conf")\ninclude("@f1.conf")', {b'f1.conf': b'l += {3}\n'}, b'l += {3}\nl += {3}'),
    ('two-files-in-a-row', b'include("@f1.conf") include("@f2.conf") i = 8', {b'f1.conf': b'i = 7', b'f2.conf': b's = "q r"'}, b'i = 7 s = "q r" i = 8'),
    ('nested-in-section-in-file', b'include("@f1.conf")', {b'f1.conf': b'sec { include("@f2.conf") }\n', b'f2.conf': b'x = 4 l = {5}'}, b'sec { x = 4 l = {5} }'),
    ('error-in-section-in-file', b'sec {\ninclude("@f1.conf")\n}', {b'f1.conf': b'x = 4\nx = bad\n'}, None),
    ('error-after-include-in-section', b'sec {\ninclude("@f1.conf")\nx = bad }', {b'f1.conf': b'x = 4\n\n\n'}, None),
    ('error-in-section-reentered-after-include', b'include("@f1.conf")\nsec {\nx = bad }', {b'f1.conf': b'sec { x = 4 }\n'}, None),
    ('error-in-section-reentered-in-file', b'sec { x = 1 }\ninclude("@f1.conf")', {b'f1.conf': b'\nsec {\nx = bad }'}, None),
    ('section-opened-in-file-closed-outside', b'include("@f1.conf")\nx = 4 }\ni = x', {b'f1.conf': b'sec {\n'}, None),
    ('section-opened-in-file-closed-outside-ok', b'include("@f1.conf")\nx = 4 }\ni = 7', {b'f1.conf': b'sec {\n'}, b'sec {\nx = 4 }\ni = 7'),
    ('section-closed-inside-the-file', b'sec {\ninclude("@f1.conf")\ni = 7', {b'f1.conf': b'x = 4 }\ni = x\n'}, None),
    ('section-closed-inside-the-file-ok', b'sec {\ninclude("@f1.conf")\ni = x', {b'f1.conf': b'x = 4 }\ni = 8\n'}, None),
    ('name-with-a-directory-part', b'i = 7\ninclude("@dir/f1.conf")\nl += {2}', {b'dir/f1.conf': b'x = 4\ni = 8\n'.replace(b'x = 4\n', b'')}, b'i = 7\ni = 8\nl += {2}'),
    ('name-with-a-directory-part-nested', b'sec { include("@dir/f1.conf") }', {b'dir/f1.conf': b'include("@dir/f2.conf")\n', b'dir/f2.conf': b'x = 4\n'}, b'sec { x = 4 }'),
    ('dot-file-name', b'i = 7\ninclude("@.f1.conf")\nl += {2}', {b'.f1.conf': b'i = 8\n'}, b'i = 7\ni = 8\nl += {2}'),
    ('dot-slash-name', b'i = 7\ninclude("@./f1.conf")\nl += {2}', {b'./f1.conf': b'i = 8\n'}, b'i = 7\ni = 8\nl += {2}'),
    ('dot-slash-dot-file-nested', b'sec { include("@./.f1.conf") }', {b'./.f1.conf': b'include("@.f2.conf")\n', b'.f2.conf': b'x = 4\n'}, b'sec { x = 4 }'),
    ('directory-then-dot-dot', b'include("@dir/../f1.conf")', {b'dir/../f1.conf': b'i = 8\n', b'dir/keep': b''}, b'i = 8'),
    # a relative name means what it means for the top-level text: not "next to the file that says include"
    ('same-name-next-to-the-including-file', b'include("@dir/f1.conf")', {b'dir/f1.conf': b'include("@f2.conf")\n', b'f2.conf': b'i = 8\n', b'dir/f2.conf': b'}}} not this one'}, b'i = 8'),
    ('name-only-next-to-the-including-file', b'include("@dir/f1.conf")\ni = 7', {b'dir/f1.conf': b'include("g.conf")\n', b'dir/g.conf': b'i = 8\n'}, None),
    # the call itself may span lines: the including source goes on at the line of its closing parenthesis
    ('include-call-over-several-lines', b'include\n(\n"@f1.conf"\n)\ni = x', {b'f1.conf': b'i = 7\n\n'}, None),
    ('include-call-over-several-lines-in-section', b'sec {\ninclude(\n"@f1.conf")\nx = bad }', {b'f1.conf': b'x = 4\n'}, None),
    ('include-call-over-several-lines-nested', b'include("@f1.conf")\ni = x', {b'f1.conf': b'include\n(\n"@f2.conf"\n)\n\n', b'f2.conf': b'i = 8'}, None),
    ('included-file-is-a-symbolic-link', b'i = 7\ninclude("@f1.conf")\nl += {2}', {b'f1.conf': b'i = 8\nsec { x = 4 }\n'}, b'i = 7\ni = 8\nsec { x = 4 }\nl += {2}'),
    ('symbolic-link-nested-and-error-after', b'include("@f1.conf")\ni = x', {b'f1.conf': b'include("@f2.conf")\n', b'f2.conf': b'i = 8\n'}, None),
    ('unterminated-string-in-file', b'include("@f1.conf")\ni = 8', {b'f1.conf': b's = "abc'}, None),
    ('unterminated-comment-in-file', b'include("@f1.conf")\ni = 8', {b'f1.conf': b'i = 7 /* abc'}, None),
    ('titled-instances-across-files', b'include("@f1.conf") include("@f2.conf")', {b'f1.conf': b'm { x = 1 }', b'f2.conf': b'm { x = 2 } m { }'}, b'm { x = 1 } m { x = 2 } m { }'),
]


def shard_special(sh):
    placements, deadline = sh
    drv = get_driver('asan')
    drv.define_schema('I2', I2.spec())
    root = engine.worker_root() + '-c13'
    if drv.rootdir != root:
        drv.set_root(root)
    st = ShardStats('special arrangements')
    batch = []
    for pl in placements:
        world = World(root, pl)
        for label, main, files, flat in SPECIAL:
            batch.append(('%s/%s' % (label, pl), world, main, files, flat))
    run(st, drv, root, batch)
    return st.result([drv])


def shard_chains(sh):
    text_list, depths, placements, deadline = sh
    drv = get_driver('asan')
    drv.define_schema('I2', I2.spec())
    root = engine.worker_root() + '-c13'
    if drv.rootdir != root:
        drv.set_root(root)
    st = ShardStats('chains')
    batch = []
    for items in text_list:
        for pl in placements:
            world = World(root, pl)
            for d in depths:
                main_items, files = chain(items, d)
                batch.append(('chain-%d/%s' % (d, pl), world, main_items, files, items if d <= LIMIT else None))
                # an error at the bottom of the chain, and after the outermost include returns
                f2 = dict(files)
                f2[b'c%d.conf' % d] = files[b'c%d.conf' % d] + [b'i = x']
                batch.append(('chain-%d-error-bottom/%s' % (d, pl), world, main_items, f2, None))
                batch.append(('chain-%d-error-after/%s' % (d, pl), world, main_items + [b'i = x'], files, None))
    # failing targets
    for pl in placements:
        world = World(root, pl)
        batch.append(('missing/' + pl, world, [b'i = 7', b'include("nope.conf")', b'i = 8'], {}, None))
        batch.append(('directory/' + pl, world, [b'i = 7', b'include("adir")'], {}, None))
        batch.append(('self-include/' + pl, world, [b'include("self.conf")'], {b'self.conf': [b'l += {2}', b'include("self.conf")']}, None))
        batch.append(('two-args/' + pl, world, [b'include("a.conf", "b.conf")'], {b'a.conf': [b'i = 7']}, None))
        batch.append(('no-args/' + pl, world, [b'include()'], {}, None))
        batch.append(('mutual/' + pl, world, [b'include("a.conf")'], {b'a.conf': [b'include("b.conf")'], b'b.conf': [b'include("a.conf")']}, None))
    run(st, drv, root, batch)
    return st.result([drv])


def shard_history(sh):
    ks, deadline = sh
    drv = get_driver('asan')
    drv.define_schema('I2', I2.spec())
    root = engine.worker_root() + '-c13'
    if drv.rootdir != root:
        drv.set_root(root)
    st = ShardStats('fail^k then succeed')
    fails = {'error-inside': b'include("bad.conf")', 'error-depth2': b'include("bad2.conf")', 'too-deep': b'include("d1.conf")',
             'missing': b'include("nope.conf")', 'self': b'include("self.conf")', 'directory': b'include("adir")', 'unterminated': b'include("dq.conf")'}
    for k in ks:
        for fname, ftext in fails.items():
            for same_ctx in (True, False):
                lines = ['wipe', 'mkdir ' + enc(b'adir'), 'mkfile %s %s' % (enc(b'bad.conf'), enc(b'l += {2}\ni = x\n')),
                         'mkfile %s %s' % (enc(b'bad2.conf'), enc(b'include("bad.conf")\n')), 'mkfile %s %s' % (enc(b'self.conf'), enc(b'include("self.conf")\n')),
                         'mkfile %s %s' % (enc(b'dq.conf'), enc(b's = "abc')), 'mkfile %s %s' % (enc(b'good.conf'), enc(b'i = 7\n'))]
                for j in range(1, LIMIT + 3):
                    lines.append('mkfile %s %s' % (enc(b'd%d.conf' % j), enc((b'include("d%d.conf")\n' % (j + 1)) if j < LIMIT + 2 else b'i = 1\n')))
                for j in range(1, LIMIT + 1):
                    lines.append('mkfile %s %s' % (enc(b'g%d.conf' % j), enc((b'include("g%d.conf")\n' % (j + 1)) if j < LIMIT else b'i = 10\n')))
                lines.append('init A I2 0')
                for rep in range(k):
                    if not same_ctx:
                        lines += ['free A', 'init A I2 0']
                    lines.append('parse_buf A ' + enc(ftext))
                if not same_ctx:
                    lines += ['free A', 'init A I2 0']
                lines += ['note now the succeeding includes', 'parse_buf A ' + enc(b'include("good.conf")'), 'get A %s int 0' % enc(b'i'),
                          'parse_buf A ' + enc(b'include("g1.conf")'), 'get A %s int 0' % enc(b'i'), 'lexstate']
                c = Case(lines, fork=True, horizon=30)
                r = drv.run([c])[0]
                st.evaluations += 1
                st.transitions += k + 2
                st.validated += 1
                c.lines = ['root ' + enc(root)] + c.lines
                script = 'schema I2 %s\n%s' % (I2.spec(), c.script())
                label = '%s^%d/%s' % (fname, k, 'same-context' if same_ctx else 'fresh-contexts')
                if r.status in ('crash', 'hang'):
                    st.violation('%s:%s' % (r.status, engine.sanitizer_summary(r.info)), script, label, engine.excerpt(r.info))
                    continue
                rcs = r.all('r parse_buf')
                gets = r.all('r get ')
                st.outcome(' '.join(rcs[-2:]) + ' '.join(gets))
                st.nontriv(label)
                bad = [x for x in rcs[:k] if x != 'r parse_buf 1']
                if bad:
                    st.violation('failing-include-not-reported:%s' % fname, script, 'r parse_buf 1 x %d' % k, ' '.join(rcs))
                elif rcs[k:] != ['r parse_buf 0', 'r parse_buf 0'] or gets != ['r get 7', 'r get 10']:
                    st.violation('include-capacity-lost:%s' % fname, script, 'both final includes succeed (i = 7, then i = 10 through %d levels)' % LIMIT,
                                 ' '.join(rcs[k:]) + ' ' + ' '.join(gets) + ' ' + ' '.join(r.all('diag ')[-2:]))
                else:
                    hyg = r.first('hyg ') or ''
                    if ' files=0 ' not in hyg or ' fds=0 ' not in hyg or 'lex=0,0,0,0' not in hyg.replace('lex=1,', 'lex=0,'):
                        st.violation('include-resources-left:%s' % fname, script, 'files=0 fds=0 inc=0', hyg)
    st.samples.append({'history': 'k failing includes of one kind, then include("good.conf") and a %d-level include chain' % LIMIT, 'k': list(ks)})
    return st.result([drv])


def main():
    ck = engine.Check(PID)
    if ck.replay:
        engine.replay_file(ck.replay)
        return
    engine.build(['asan'])
    quick = ck.tier == 'quick'
    dl = ck.deadline
    T = texts(quick)
    engine.phase(ck, 'chains of depth 1..%d, failing targets' % (LIMIT + 2), shard_chains,
                 [(list(ch), list(range(1, LIMIT + 3)), PLACEMENTS, dl) for ch in engine.chunks(T[:30], 2)], texts=30, placements=len(PLACEMENTS))
    engine.phase(ck, 'special arrangements (include inside sections, items split across the file boundary, odd file endings) x 5 placements',
                 shard_special, [([pl], dl) for pl in PLACEMENTS], arrangements=len(SPECIAL))
    engine.phase(ck, 'fail^k then succeed, k = 0..12', shard_history, [([k], dl) for k in range(0, 13)], kinds=7)
    engine.phase(ck, 'split trees of depth <= 2 with error injection', shard_splits,
                 [(list(ch), 2, PLACEMENTS, True, dl) for ch in engine.chunks(T, 4)], texts=len(T), placements=len(PLACEMENTS))
    if not quick:
        engine.phase(ck, 'split trees of depth <= 4', shard_splits, [(list(ch), 4, ['rel', 'sp2'], False, dl) for ch in engine.chunks(T, 2)], texts=len(T))
    ck.assumptions = ['files are written to a per-worker fixture directory under /verif/build/fx; names are relative to that directory, absolute, or '
                      'found through one of two search-path directories', 'the error position of a failing include call is any line of that call']
    ck.finish('texts of <= 4 items x every contiguous run moved into a file (recursively) x 5 placements x error injection; chains of depth 1..12; '
              'failing targets; histories of k failing includes followed by succeeding ones; non-trivial = distinct main texts')


if __name__ == '__main__':
    main()
