"""model.py - the boring reference models.

  Opt / Schema   declarations (rendered for the driver, read by the models)
  refnum         text -> int / float / bool  (C04)
  Store          abstract typed store (values, pristine bit, modified bit, annotation)
  RefParser      grammar + store semantics of the configuration language on a
                 token list (C01, C06, C12, C13, C14, C15)

Verdicts: ACCEPT, REJECT, INCOMPLETE (rejected only because the input ends), UNSPEC
(the property statements, API documentation and test suite do not determine the
behaviour: executed, never compared).
"""
import re, math, copy
from engine import enc

ACCEPT, REJECT, INCOMPLETE, UNSPEC = 'ACCEPT', 'REJECT', 'INCOMPLETE', 'UNSPEC'

CFGF = {'MULTI': 1, 'LIST': 2, 'NOCASE': 4, 'TITLE': 8, 'NODEFAULT': 16, 'NO_TITLE_DUPES': 32,
        'RESET': 64, 'DEFINIT': 128, 'IGNORE_UNKNOWN': 256, 'DEPRECATED': 512, 'DROP': 1024,
        'COMMENTS': 2048, 'MODIFIED': 4096, 'KEYSTRVAL': 8192}

LONG_MAX = 2 ** 63 - 1
LONG_MIN = -2 ** 63


# ---------------------------------------------------------------------------
# declarations

class Opt:
    """kind: int float bool str ptr func sec
    flags: letters  L list  M multi  T title  U no-title-dupes  N nodefault
                    D deprecated  X drop  K free-form key=value  S simple
    default: scalar -> python value (int / float / bool / bytes) or None (zero / NULL);
             list   -> list of raw value texts (bytes) or None"""

    def __init__(self, kind, name, flags='', default=None, cbs='', sub=None):
        self.kind = kind
        self.name = name.encode('latin-1') if isinstance(name, str) else name
        self.flags = flags
        self.default = default
        self.cbs = cbs
        self.sub = sub or []

    def has(self, f):
        return f in self.flags

    @property
    def is_list(self):
        return 'L' in self.flags

    def spec(self):
        fl = self.flags or '-'
        if self.default is None:
            d = '-'
        elif self.is_list or self.kind == 'ptr':
            if self.is_list:
                d = 'p' + enc(b'{' + b', '.join(self.default) + b'}')
            else:
                d = 'p' + enc(self.default)
        elif self.kind == 'int':
            d = 'n%d' % self.default
        elif self.kind == 'float':
            d = 'f%r' % self.default
        elif self.kind == 'bool':
            d = 'b%d' % (1 if self.default else 0)
        elif self.kind == 'str':
            d = 's' + enc(self.default)
        else:
            d = '-'
        s = '%s %s %s %s %s' % (self.kind, enc(self.name), fl, d, self.cbs or '-')
        if self.kind == 'sec':
            s += ' { ' + ' '.join(o.spec() for o in self.sub) + ' }'
        return s


class Schema:
    def __init__(self, sid, opts, note=''):
        self.sid = sid
        self.opts = opts
        self.note = note

    def spec(self):
        return ' '.join(o.spec() for o in self.opts)

    def all_names(self):
        out = []

        def walk(opts):
            for o in opts:
                if o.name not in out:
                    out.append(o.name)
                walk(o.sub)
        walk(self.opts)
        return out


# ---------------------------------------------------------------------------
# refnum (C04)

_INT_DEC = re.compile(rb'-?[0-9]+\Z')
_FLOAT = re.compile(rb'-?([0-9]+\.?[0-9]*|\.[0-9]+)([eE][-+]?[0-9]+)?\Z')
_WS = b' \t\n\v\f\r'


_PREFIXED = re.compile(rb'0x[0-9a-fA-F]+\Z|0b[01]+\Z|0[0-7]+\Z')


def _prefixed_value(t):
    if t[1:2] == b'x':
        return int(t[2:], 16)
    if t[1:2] == b'b':
        return int(t[2:], 2)
    return int(t[1:], 8)


def conv_int(t):
    """-> (ACCEPT, value) | (REJECT, None) | (UNSPEC, None)"""
    if t is None:
        return (UNSPEC, None)
    if not t:
        return (REJECT, None)   # no digit at all
    if t[0:1] in (b' ', b'\t', b'\n', b'\v', b'\f', b'\r'):
        return (UNSPEC, None)   # leading white space (the C conversion functions skip it; the statement does not say)
    if t[-1:] in (b' ', b'\t', b'\n', b'\v', b'\f', b'\r'):
        return (REJECT, None)   # trailing white space: the whole token is not a numeral, nothing may be cut off silently
    if t[0:1] == b'+':
        return (UNSPEC, None)   # leading plus
    if t[0:1] == b'-' and t[1:2] == b'0' and len(t) > 2:
        # sign in front of a radix prefix (-0x10, -010): whether such a token is a numeral is not stated, but IF it is accepted it
        # "yields exactly that number": the sign applied to the digits read in the radix the prefix selects (or, for a leading 0,
        # read as decimal) - never the magnitude alone or another value.  The set of readings constrains accepted values only.
        rv, rval = conv_int(t[1:])
        allowed = set()
        if rv == UNSPEC:
            return (UNSPEC, None)
        if rv == ACCEPT or (rval is None and _PREFIXED.match(t[1:])):
            allowed.add(-_prefixed_value(t[1:]))
        if re.match(rb'[0-9]+\Z', t[1:]):
            allowed.add(-int(t[1:]))
        return (UNSPEC, frozenset(allowed) if allowed else None)
    if t[0:1] == b'0' and len(t) > 1:
        p = t[1:2]
        if p == b'x':
            body, radix, digits = t[2:], 16, b'0123456789abcdefABCDEF'
        elif p == b'b':
            body, radix, digits = t[2:], 2, b'01'
        elif p in (b'X', b'B'):
            return (UNSPEC, None)   # upper-case prefix: not mentioned
        else:
            body, radix, digits = t[1:], 8, b'01234567'
        if not body or any(c not in digits for c in body):
            return (REJECT, None)
        v = int(body, radix)
    else:
        if not _INT_DEC.match(t):
            return (REJECT, None)
        v = int(t)
    if v < LONG_MIN or v > LONG_MAX:
        return (REJECT, None)
    return (ACCEPT, v)


DBL_MAX = 1.7976931348623157e308
DBL_MIN = 2.2250738585072014e-308


def conv_float(t):
    if t is None:
        return (UNSPEC, None)
    if not t:
        return (REJECT, None)
    if t[0:1] in (b' ', b'\t', b'\n', b'\v', b'\f', b'\r'):
        return (UNSPEC, None)
    if t[-1:] in (b' ', b'\t', b'\n', b'\v', b'\f', b'\r'):
        return (REJECT, None)
    if t[0:1] == b'+':
        return (UNSPEC, None)
    low = t.lower().lstrip(b'-')
    if low.startswith(b'0x'):
        return (UNSPEC, None)   # hexadecimal floats: a C spelling the statement does not mention
    # "inf", "infinity", "nan": spellings the C conversion takes, but not finite-range numerals - they fall to the numeral test below
    if not _FLOAT.match(t):
        return (REJECT, None)
    try:
        v = float(t)
    except (ValueError, OverflowError):
        return (REJECT, None)
    if math.isinf(v):
        return (REJECT, None)   # out of the finite range
    if v == 0.0:
        # exact zero or underflow to zero
        m = re.sub(rb'[eE].*', b'', t)
        if any(c in b'123456789' for c in m):
            return (REJECT, None)   # a non-zero numeral that underflows to zero: neither exact nor within the range ("never truncated or defaulted")
        return (ACCEPT, v)
    if abs(v) < DBL_MIN:
        return (UNSPEC, None)   # denormal results
    return (ACCEPT, v)


def conv_bool(t):
    if t is None:
        return (UNSPEC, None)
    low = t.lower() if all(c < 128 for c in t) else t
    if low in (b'true', b'yes', b'on'):
        return (ACCEPT, 1)
    if low in (b'false', b'no', b'off'):
        return (ACCEPT, 0)
    return (REJECT, None)


def fmt_float(v):
    return '%.17g' % v


# what the driver's value-parsing callback produces (cfgdrv.c cb_parse)
def cb_parse_value(kind, t):
    if kind == 'int':
        special = {b'BIG': 3232235521, b'I31': 2147483648, b'U32': 4294967295, b'NEG': -5, b'HUGE': (1 << 40) + 7}
        if t in special:
            return special[t]         # what a callback produces is the value: any long
        return len(t) * 1000 + (t[0] if t else 0)
    if kind == 'float':
        if t == b'INF':
            return float('inf')       # what a callback produces is the value, also when it is not a finite number
        return len(t) + 0.5
    if kind == 'bool':
        return 1 if t[:1] in (b'y', b't') else 0
    if kind == 'str':
        return b'<' + t + b'>'
    if kind == 'ptr':
        return t
    raise ValueError(kind)


def convert(decl, t):
    """text -> (verdict, value) for a value option, honouring a parse callback"""
    if 'p' in decl.cbs:
        if b'\0' in t:
            return (UNSPEC, None)
        return (ACCEPT, cb_parse_value(decl.kind, t))
    k = decl.kind
    if k == 'int':
        return conv_int(t)
    if k == 'float':
        return conv_float(t)
    if k == 'bool':
        return conv_bool(t)
    if k == 'str':
        return (ACCEPT, t)
    return (UNSPEC, None)   # ptr without a parse callback


# ---------------------------------------------------------------------------
# store

class OptState:
    __slots__ = ('decl', 'values', 'pristine', 'modified', 'comment', 'simple')

    def __init__(self, decl):
        self.decl = decl
        self.values = []       # python values; for sections: SecState
        self.pristine = False  # "still holds the declared default" (RESET)
        self.modified = False
        self.comment = None
        self.simple = None     # "simple" options keep their value in the caller's variable
        if 'S' in decl.flags:
            self.simple = {'int': 0, 'float': 0.0, 'bool': 0, 'str': None}.get(decl.kind)


class SecState:
    __slots__ = ('opts', 'title', 'nocase', 'keystrval', 'decls')

    def __init__(self, decls, nocase=False, keystrval=False, title=None):
        self.decls = decls
        self.title = title
        self.nocase = nocase
        self.keystrval = keystrval
        self.opts = []
        for d in decls:
            self.opts.append(init_opt(d, self))

    def find(self, name):
        if self.nocase:
            ln = name.lower()
            for o in self.opts:
                if o.decl.name.lower() == ln:
                    return o
        else:
            for o in self.opts:
                if o.decl.name == name:
                    return o
        return None


class BadDefault(Exception):
    pass


def init_opt(d, parent):
    st = OptState(d)
    if d.has('S') or d.has('N'):
        return st
    if d.kind == 'sec':
        if not d.has('M'):
            st.values.append(SecState(d.sub, parent.nocase, parent.keystrval or d.has('K'), None))
        return st
    if d.kind == 'func':
        st.pristine = True
        return st
    if d.is_list:
        if d.default:
            for t in d.default:
                v, val = convert(d, t)
                if v != ACCEPT:
                    raise BadDefault(d.name)
                st.values.append(val)
            st.pristine = True
        elif d.default is not None and len(d.default) == 0:
            # "{}" as default text: parsed, yields no value, but marks the option
            st.pristine = True
        return st
    if d.kind == 'ptr':
        if d.default is not None:
            v, val = convert(d, d.default)
            if v != ACCEPT:
                raise BadDefault(d.name)
            st.values.append(val)
        st.pristine = True
        return st
    if d.kind == 'int':
        st.values.append(int(d.default or 0))
    elif d.kind == 'float':
        st.values.append(float(d.default or 0.0))
    elif d.kind == 'bool':
        st.values.append(1 if d.default else 0)
    elif d.kind == 'str':
        st.values.append(d.default)   # may be None (NULL string)
    st.pristine = True
    return st


def new_store(schema, ctxflags=0):
    return SecState(schema.opts, bool(ctxflags & CFGF['NOCASE']), bool(ctxflags & CFGF['KEYSTRVAL']))


DM_MOD, DM_RESET, DM_ANNOT, DM_NOSECMOD = 1, 2, 4, 8
_TC = {'int': 'i', 'float': 'f', 'str': 's', 'bool': 'b', 'sec': 'S', 'func': 'F', 'ptr': 'p'}


def dump_opt(o, mode):
    d = o.decl
    parts = [enc(d.name), '=', _TC[d.kind], 'L' if d.is_list else '', '[%d]' % len(o.values)]
    if (mode & DM_MOD) and o.modified and not ((mode & DM_NOSECMOD) and d.kind == 'sec'):
        parts.append('M' if o.modified is True else '?')
    if (mode & DM_RESET) and o.pristine:
        parts.append('R')
    vs = []
    for v in o.values:
        if d.kind == 'int' or d.kind == 'bool':
            vs.append('%d' % v)
        elif d.kind == 'float':
            vs.append(fmt_float(v))
        elif d.kind in ('str', 'ptr'):
            vs.append(enc(v))
        elif d.kind == 'sec':
            vs.append(enc(v.title) + dump_sec(v, mode))
    parts.append('(' + ','.join(vs) + ')')
    if d.has('S') and not o.values:
        sv = o.simple
        if d.kind in ('int', 'bool'):
            parts.append('s(%d)' % sv)
        elif d.kind == 'float':
            parts.append('s(%s)' % fmt_float(sv))
        elif d.kind == 'str':
            parts.append('s(%s)' % enc(sv))
    if (mode & DM_ANNOT) and o.comment is not None:
        parts.append('#' + enc(o.comment))
    return ''.join(parts)


def dump_sec(s, mode=0):
    return '{' + ' '.join(dump_opt(o, mode) for o in s.opts) + '}'


# ---------------------------------------------------------------------------
# token level parser

class Tok:
    __slots__ = ('k', 't', 'line', 'eline', 'file', 'depth')
    # k: 'S' string  'C' comment  one of { } ( ) = + ,   'X' lexical error  'U' lexically unspecified
    # line: line on which the token starts; eline: line on which it ends
    # file: None = the top-level source, else the name of the included file; depth: include nesting

    def __init__(self, k, t=b'', line=1, eline=None, file=None, depth=0):
        self.k = k
        self.t = t
        self.line = line
        self.eline = line if eline is None else eline
        self.file = file
        self.depth = depth

    def __repr__(self):
        return 'Tok(%s,%r)' % (self.k, self.t)


class _Stop(Exception):
    def __init__(self, verdict, at, why=''):
        self.verdict = verdict
        self.at = at
        self.why = why
        self.start = None   # index of the first token of the item in which the parse stopped


class ParseResult:
    __slots__ = ('verdict', 'at', 'why', 'events', 'deprecated', 'annotated', 'items', 'unknown_items', 'start', 'annotations')


class RefParser:
    """Parses a token list into a store (mutated in place).

    events: list of ('p', optname, text) parse callback, ('v', optname) validation,
            ('f', optname, [args]) function callback - in the order the language
            demands them (C14).
    items:  list of (start_index, end_index_exclusive, depth, kind) for every
            completed item (C12 / C13 / C15 insertion points)
    """

    def __init__(self, ctxflags=0, include=None, cb_fail=0):
        self.ignore_unknown = bool(ctxflags & CFGF['IGNORE_UNKNOWN'])
        self.comments = bool(ctxflags & CFGF['COMMENTS'])
        self.include = include     # callable(parser, sec, filename_bytes, tokindex) for the builtin include
        self.cb_fail = cb_fail     # k-th callback invocation fails (C14)
        self.cb_seen = 0

    def parse(self, store, toks):
        self.toks = toks
        self.n = len(toks)
        self.i = 0
        self.events = []
        self.deprecated = []
        self.items = []
        self.unknown_items = 0
        self.pending_comment = None
        self.includes = 0
        self.cur_top = None
        self.annotations = []
        r = ParseResult()
        r.why = ''
        r.start = None
        try:
            self.body(store, 0)
            r.verdict, r.at = ACCEPT, self.n
        except _Stop as s:
            r.verdict, r.at, r.why, r.start = s.verdict, s.at, s.why, s.start
        r.events = self.events
        r.deprecated = self.deprecated
        r.items = self.items
        r.unknown_items = self.unknown_items
        r.annotations = self.annotations
        return r

    # -- helpers
    def peek(self):
        # comments are transparent everywhere (C15); they are remembered for annotation
        while self.i < self.n and self.toks[self.i].k == 'C':
            self.i += 1
        if self.i >= self.n:
            return None
        t = self.toks[self.i]
        if t.k == 'X':
            raise _Stop(REJECT, self.i, 'lexical error: ' + t.t.decode('latin-1'))
        if t.k == 'U':
            raise _Stop(UNSPEC, self.i, 'lexically unspecified: ' + t.t.decode('latin-1'))
        return t

    def need(self, what=''):
        t = self.peek()
        if t is None:
            raise _Stop(INCOMPLETE, self.n, 'end of input ' + what)
        return t

    def tick(self):
        """callback invocation counter; True when this one must fail"""
        self.cb_seen += 1
        return self.cb_fail and self.cb_seen == self.cb_fail

    # -- grammar
    def body(self, sec, depth, path=b''):
        while True:
            # annotation candidate: the last comment directly in front of the item
            start = self.i
            comment = None
            j = self.i
            while j < self.n and self.toks[j].k == 'C':
                comment = self.toks[j].t
                j += 1
            t = self.peek()
            if t is None:
                if depth == 0:
                    return
                raise _Stop(INCOMPLETE, self.n, 'end of input inside a section')
            if t.k == '}':
                if depth == 0:
                    raise _Stop(REJECT, self.i, 'unexpected closing brace')
                self.i += 1
                return
            if t.k != 'S':
                raise _Stop(REJECT, self.i, 'unexpected token')
            name_i = self.i
            if depth == 0:
                self.cur_top = self.toks[self.i].t
            try:
                self.item(sec, depth, comment, start, path)
            except _Stop as s:
                if s.start is None:
                    s.start = name_i
                raise

    def item(self, sec, depth, comment, start, path=b''):
        name_i = self.i
        name = self.toks[self.i].t
        self.i += 1
        if (b'|' in name or b'=' in name) and not (sec.keystrval and not self.ignore_unknown):
            # a name that looks like a path is resolved by the path machinery.  What an assignment through a path means is
            # not part of C01; but a path that does not resolve names nothing: it is an unknown name like any other.
            # (Inside a free-form section a name is a key, whatever it looks like: that case takes the normal route below.)
            import refpath
            r = refpath.resolve(sec, name, 'opt')
            if r != refpath.NOTFOUND:
                raise _Stop(UNSPEC, name_i, 'name looks like a path')
            if self.ignore_unknown:
                self.skip_unknown(depth)
                self.unknown_items += 1
                self.items.append((start, self.i, depth, 'unknown'))
                return
            raise _Stop(REJECT, name_i, 'no such option')
        o = sec.find(name) if name else None       # the empty name ("" = 1) names nothing
        if o is None:
            if not name and sec.keystrval and not self.ignore_unknown:
                raise _Stop(UNSPEC, name_i, 'empty key in a free-form section')
            if self.ignore_unknown:
                self.skip_unknown(depth)
                self.unknown_items += 1
                self.items.append((start, self.i, depth, 'unknown'))
                return
            if sec.keystrval:
                from_decl = Opt('str', name, 'N')
                o = OptState(from_decl)
                o_created = True
                # the key is only created when '=' follows; otherwise the text is rejected anyway
                t = self.need('after key')
                if t.k == '=':
                    sec.opts.append(o)
                elif t.k == '+':
                    raise _Stop(REJECT, self.i, 'append to non-list')
                else:
                    raise _Stop(REJECT, self.i, 'missing equal sign')
            else:
                raise _Stop(REJECT, name_i, 'no such option')
        d = o.decl
        if d.kind == 'sec':
            self.section_item(sec, o, depth, name_i, path)
            kind = 'sec'
        elif d.kind == 'func':
            self.func_item(sec, o, name_i)
            kind = 'func'
        else:
            self.value_item(sec, o, comment, path)
            kind = 'value'
        if d.has('D'):
            self.deprecated.append((d.name, self.i))
            if d.has('X'):
                o.values = []
        self.items.append((start, self.i, depth, kind))

    def value_item(self, sec, o, comment, path=b''):
        d = o.decl
        t = self.need('after option name')
        if t.k == '+':
            if not d.is_list:
                raise _Stop(REJECT, self.i, 'append to non-list')
            append = True
        elif t.k == '=':
            append = False
        else:
            raise _Stop(REJECT, self.i, 'missing equal sign')
        self.i += 1
        o.modified = True
        if not d.is_list:
            t = self.need('value')
            if t.k != 'S':
                raise _Stop(REJECT, self.i, 'unexpected token')
            val = self.store_value(o, t, self.i)
            if d.has('S'):
                o.simple = val
            else:
                o.values = [val]
            o.pristine = False
            self.i += 1
            self.validate(o)
            if self.comments and comment is not None:
                o.comment = comment
                self.annotations.append((path + d.name, comment))
            return
        # list
        t = self.need('list value')
        if t.k == 'S':
            # bare value: pinned by tests/list_plus_syntax.c
            val = self.store_value(o, t, self.i)
            if not append:
                o.values = []
            o.values.append(val)
            o.pristine = False
            self.i += 1
            self.validate(o)
            if self.comments and comment is not None:          # a list given one bare value is a non-empty list all the same
                o.comment = comment
                self.annotations.append((path + d.name, comment))
            return
        if t.k != '{':
            raise _Stop(REJECT, self.i, 'unexpected token')
        self.i += 1
        if not append:
            newvals = []
        else:
            newvals = o.values
        o.pristine = False
        first = True
        nvals = 0
        while True:
            t = self.need('inside list')
            if t.k == '}':
                if not first:
                    # trailing comma  {a,}
                    raise _Stop(UNSPEC, self.i, 'trailing comma')
                self.i += 1
                break
            if t.k != 'S':
                raise _Stop(REJECT, self.i, 'unexpected token')
            val = self.store_value(o, t, self.i)
            newvals.append(val)
            o.values = newvals
            nvals += 1
            self.i += 1
            self.validate(o)
            if self.comments and comment is not None and nvals == 1:
                o.comment = comment
                self.annotations.append((path + d.name, comment))
            t = self.need('inside list')
            if t.k == ',':
                self.i += 1
                first = False
                continue
            if t.k == '}':
                self.i += 1
                self.validate(o, closing=True)
                break
            raise _Stop(REJECT, self.i, 'unexpected token')
        o.values = newvals

    def store_value(self, o, t, at):
        d = o.decl
        if 'p' in d.cbs:
            fail = self.tick()
            self.events.append(('p', d.name, t.t, t))                  # last element: the token the scanner has just delivered
            if fail:
                raise _Stop(REJECT, at, 'parse callback failed')
        v, val = convert(d, t.t)
        if v == UNSPEC:
            raise _Stop(UNSPEC, at, 'conversion unspecified')
        if v != ACCEPT:
            raise _Stop(REJECT, at, 'bad value')
        return val

    def validate(self, o, closing=False):
        if 'v' in o.decl.cbs:
            fail = self.tick()
            d = o.decl
            n = len(o.values)
            last = None
            if n:
                v = o.values[-1]
                if d.kind in ('int', 'bool'):
                    last = '%d' % v
                elif d.kind == 'float':
                    last = fmt_float(v)
                elif d.kind in ('str', 'ptr'):
                    last = enc(v)
                elif d.kind == 'sec':
                    last = enc(v.title)
            self.events.append(('v', d.name, closing, n, last, self.toks[self.i - 1] if self.i else None))
            if fail:
                raise _Stop(REJECT, self.i, 'validation callback failed')

    def section_item(self, sec, o, depth, name_i, path=b''):
        d = o.decl
        title = None
        if d.has('T'):
            t = self.need('section title')
            if t.k != 'S':
                raise _Stop(REJECT, self.i, 'missing title')
            title = t.t
            self.i += 1
        t = self.need('opening brace')
        if t.k != '{':
            raise _Stop(REJECT, self.i, 'missing opening brace')
        brace_i = self.i
        if d.has('T') and not d.has('M') and o.values:
            # a single section with a title: the instance takes the title it is created with; what a title means when the
            # instance exists already (created by cfg_init, or re-opened) is not described
            raise _Stop(UNSPEC, name_i, 'title on an existing single section')
        if sec.keystrval and not d.has('K'):
            raise _Stop(UNSPEC, name_i, 'section nested in a free-form section')
        if title is not None and b'\0' in title:
            raise _Stop(UNSPEC, name_i, 'NUL in title')
        self.i += 1
        o.modified = True
        if not d.has('M'):
            if not o.values:
                # a single section declared NODEFAULT does not exist until the text mentions it
                o.values.append(SecState(d.sub, sec.nocase, sec.keystrval or d.has('K'), title))
            inst = o.values[0]
        else:
            inst = SecState(d.sub, sec.nocase, sec.keystrval or d.has('K'), title)
            if d.has('T'):
                idx = None
                for k, s in enumerate(o.values):
                    if s.title == title:
                        idx = k
                        break
                    # "configuration file is case insensitive": under CFGF_NOCASE a title that differs
                    # only in letter case names the same instance (ASCII letters only)
                    if sec.nocase and s.title is not None and s.title.lower() == title.lower():
                        if any(c > 127 for c in s.title + title):
                            raise _Stop(UNSPEC, name_i, 'case of non-ASCII titles')
                        idx = k
                        break
                if idx is not None:
                    if d.has('U'):
                        raise _Stop(REJECT, brace_i, 'duplicate title')
                    o.values[idx] = inst
                else:
                    o.values.append(inst)
            else:
                o.values.append(inst)
        if not d.has('M'):
            step = d.name
        elif d.has('T'):
            step = d.name + b"='" + title.replace(b'\\', b'\\\\').replace(b"'", b"\\'") + b"'"
        else:
            step = d.name + b'=%d' % (len(o.values) - 1)
        self.body(inst, depth + 1, path + step + b'|')
        self.validate(o)

    def func_item(self, sec, o, name_i):
        d = o.decl
        t = self.need('opening parenthesis')
        if t.k != '(':
            raise _Stop(REJECT, self.i, 'missing parenthesis')
        self.i += 1
        args = []
        first = True
        while True:
            t = self.need('inside call')
            if t.k == ')':
                if not first:
                    raise _Stop(UNSPEC, self.i, 'trailing comma in call')
                self.i += 1
                break
            if t.k != 'S':
                raise _Stop(REJECT, self.i, 'syntax error in call')
            args.append(t.t)
            self.i += 1
            t = self.need('inside call')
            if t.k == ',':
                self.i += 1
                first = False
                continue
            if t.k == ')':
                self.i += 1
                break
            raise _Stop(REJECT, self.i, 'syntax error in call')
        if 'i' in d.cbs:
            if self.include is None:
                raise _Stop(UNSPEC, name_i, 'include without a file model')
            # the file model answers with the tokens of the file (spliced in at this point:
            # "include equals the text in place") or with a verdict
            ans = self.include(args, self.toks[name_i])
            if isinstance(ans, tuple):
                raise _Stop(ans[0], self.i - 1, ans[1])
            self.toks = self.toks[:self.i] + ans + self.toks[self.i:]
            self.n = len(self.toks)
            self.includes += 1
            return
        fail = self.tick()
        self.events.append(('f', d.name, list(args), self.toks[self.i - 1]))
        if fail:
            raise _Stop(REJECT, self.i - 1, 'function callback failed')

    # -- unknown items under IGNORE_UNKNOWN (C12): well-formed ones are skipped, the
    #    rest is unspecified
    def skip_unknown(self, depth):
        t = self.need('after unknown name')
        if t.k in ('=', '+'):
            self.i += 1
            t = self.need('unknown value')
            if t.k == 'S':
                self.i += 1
                return
            if t.k == '{':
                self.i += 1
                self.skip_seq('}')
                return
            raise _Stop(UNSPEC, self.i, 'malformed unknown item')
        if t.k == '(':
            self.i += 1
            self.skip_seq(')')
            return
        if t.k == 'S':
            self.i += 1
            t = self.need('unknown section brace')
            if t.k != '{':
                raise _Stop(UNSPEC, self.i, 'malformed unknown item')
        if t.k == '{':
            self.i += 1
            self.skip_body()
            return
        raise _Stop(UNSPEC, self.i, 'malformed unknown item')

    def skip_seq(self, close):
        first = True
        while True:
            t = self.need('inside unknown list')
            if t.k == close:
                if not first:
                    raise _Stop(UNSPEC, self.i, 'trailing comma')
                self.i += 1
                return
            if t.k != 'S':
                raise _Stop(UNSPEC, self.i, 'malformed unknown item')
            self.i += 1
            t = self.need('inside unknown list')
            if t.k == ',':
                self.i += 1
                first = False
                continue
            if t.k == close:
                self.i += 1
                return
            raise _Stop(UNSPEC, self.i, 'malformed unknown item')

    def skip_body(self):
        while True:
            t = self.need('inside unknown section')
            if t.k == '}':
                self.i += 1
                return
            if t.k != 'S':
                raise _Stop(UNSPEC, self.i, 'malformed unknown item')
            self.i += 1
            self.skip_unknown(1)


WORD_ENV = {'E': '', 'V': 'val'}


def tokens_from_words(words):
    """C01's layout: tokens joined by one blank; a word is a punctuation token or a string"""
    out = []
    for w in words:
        if w in ('{', '}', '(', ')', '=', ','):
            out.append(Tok(w))
        elif w == '+=':
            out.append(Tok('+'))
        elif isinstance(w, str) and w.startswith('${') and w.endswith('}'):
            # an unquoted substitution word: one string token holding the value of the variable, or the default when the variable
            # is not set at all (WORD_ENV: E is set to the empty string, V to 'val', everything else is unset)
            inner = w[2:-1]
            name, _, dflt = inner.partition(':-')
            v = WORD_ENV.get(name)
            if v is None:
                v = dflt
            out.append(Tok('S', v.encode('latin-1')))
        elif isinstance(w, str) and (w.startswith('#') or w.startswith('//') or w.startswith('/*')):
            out.append(Tok('C', w.strip('#/* \n').encode('latin-1')))     # a comment word (C07 alphabets)
        else:
            out.append(Tok('S', w.encode('latin-1') if isinstance(w, str) else w))
    return out
