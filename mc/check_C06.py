#!/usr/bin/env python3
"""C06 - rejected input is always reported, with the right file and line.

E1 token sequences x layout deviations (separator before each token: blank, newlines, the three
comment styles, multi-line comment), multi-line string tokens, texts inside included files.
Oracle: reflex + RefParser give verdict, file and line of the offending token.
"""
import sys, os, time, itertools
sys.path.insert(0, os.path.dirname(os.path.abspath(__file__)))
import engine
from engine import Case, enc, dec, ShardStats, get_driver
from model import ACCEPT, REJECT, INCOMPLETE, UNSPEC, CFGF, Opt, Schema
import schemas as S
import reftext

PID = 'C06'
FAM = {s.sid: s for s in S.family_F()}
FAM['I1'] = Schema('I1', [Opt('func', 'include', '', None, 'i'), Opt('int', 'i', '', 5), Opt('str', 's', '', b'q'),
                          Opt('sec', 'sec', '', sub=[Opt('int', 'x', '', 1), Opt('func', 'include', '', None, 'i')]), Opt('sec', 'm', 'M', sub=[Opt('int', 'x', '', 1), Opt('func', 'include', '', None, 'i'), Opt('int', 'ml', 'L', [b'1', b'2'])])])
FAM['CB1'] = Schema('CB1', [Opt('int', 'a', '', 5, 'pv'), Opt('int', 'l', 'L', [b'1'], 'pv'),
                            Opt('sec', 's', 'M', sub=[Opt('int', 'x', '', 1, 'pv')], cbs='v'),
                            Opt('sec', 't', '', sub=[Opt('int', 'y', '', 1, 'v')], cbs='v'), Opt('func', 'fn', '', None, 'u')])
USE = ['F01', 'F03', 'F05', 'F06', 'F07', 'F08', 'F09', 'F11', 'F13', 'F15', 'F16']
SEPS = [b'\n', b'\n\n', b' # c\n', b' // c\n', b' /* c */ ', b' /* a\nb */ ', b' /* a *\n * b\n */ ', b'\r\n', b' # c\r\n\r\n', b' #\n', b' /**/ ']      # the last two: comments with nothing in them
# CR LF line ends: the statement counts "every newline once"; what a carriage return between tokens is otherwise is not said anywhere,
# and the scanner drops it like a blank - the reference scanner does the same here so that the line count can be compared
import reflex
reflex.CR_IS_BLANK = True
QUICK_FULL_SEPS = os.environ.get('VERIF_TIER', 'quick') != 'quick'
BATCH = 300


def has_deprecated(sch):
    def walk(opts):
        return any(o.has('D') or walk(o.sub) for o in opts)
    return walk(sch.opts)


def words_for(sch):
    w = [x.encode('latin-1') for x in S.alphabet_for(sch, extra_names=False)]
    w.insert(len(w) - 7, b'zz')
    w.insert(len(w) - 7, b'"a\nb"')
    w.insert(len(w) - 7, b"'a\\\nb'")
    w.insert(len(w) - 7, b"'a\nb'")
    w.insert(len(w) - 7, b'"a\\\nb"')
    w.insert(len(w) - 7, b'"a\n\\9"')
    w.insert(len(w) - 7, b"'a\nb")
    w.insert(len(w) - 7, b'""')
    w.insert(len(w) - 7, b'"a${U\n}b"')        # the braces of a substitution span a line
    w.insert(len(w) - 7, b'${U:-d\ne}')         # ... outside quotes, in the default part
    w.insert(len(w) - 7, b'"${V:-d\n\ne}"')
    if any(o.has('K') for o in sch.opts):
        w.insert(len(w) - 7, b'a|b')                 # inside a free-form section this is a key like any other
    secs = [o.name for o in sch.opts if o.kind == 'sec']
    if secs:
        w.insert(len(w) - 7, b'"' + secs[0] + b'|zz"')        # an unknown name written as a path: reported in the parser's context
    return w


REDUCED = {}


def reduced_words(sch):
    return [n for n in sch.all_names()] + [b'7', b't1', b'=', b'+=', b'{', b'}', b'zz']


def layout_text(words, seps, trail):
    out = []
    for k, w in enumerate(words):
        if k or seps[0] != b' ':
            out.append(seps[k] if k or seps[0] != b' ' else b'')
        out.append(w)
    return b''.join(out) + (trail if trail != b' ' else b'')


def e1_words(sch, flags, alpha, N, prefix):
    def rec(words):
        m = reftext.meaning(sch, flags, b' '.join(words))
        yield words, m
        viable = m.verdict == ACCEPT or (m.verdict == REJECT and m.res.verdict == INCOMPLETE and m.lex.status == 'OK')
        if len(words) < N and viable:
            for w in alpha:
                yield from rec(words + [w])
    yield from rec(list(prefix))


def judge(st, sid, sch, case, res, m, fname, label):
    st.evaluations += 1
    script = 'schema %s %s\n%s' % (sid, sch.spec(), case.script())
    if res.status in ('crash', 'hang'):
        st.violation('%s:%s' % (res.status, engine.sanitizer_summary(res.info)), script, '', engine.excerpt(res.info))
        return
    rc = res.first('r parse')
    diags = res.all('diag ')
    st.outcome('%s %d %s' % (rc, len(diags), diags[-1].split(' ')[2] if diags else ''))
    if m.verdict == UNSPEC:
        st.unspec += 1
        # whether such a text is accepted is not said anywhere - but whichever way the library decides, the two halves of the
        # statement that need no verdict still bind: a failed parse has delivered a diagnostic, an accepted one has not
        if rc is not None and rc.endswith(' 1') and not diags:
            st.violation('rejected-without-diagnostic:unspecified-text', script, 'at least one diagnostic for a parse that returns the error code', 'none')
        elif rc is not None and rc.endswith(' 0') and diags and not has_deprecated(sch):
            st.violation('diagnostic-on-accepted-parse:unspecified-text', script, 'no diagnostic for an accepted parse', '\n'.join(diags))
        return
    st.validated += 1
    if m.verdict == ACCEPT:
        if rc is None or not rc.endswith(' 0'):
            st.violation('accept-rc', script, 'rc 0', rc or 'none')
        elif diags and not has_deprecated(sch):
            st.violation('diagnostic-on-accepted-parse', script, 'no diagnostic', '\n'.join(diags))
        return
    # rejected
    if rc is None or not rc.endswith(' 1'):
        st.violation('reject-rc', script, 'rc 1 (%s)' % m.why, rc or 'none')
        return
    if not diags:
        st.violation('rejected-without-diagnostic', script, 'at least one diagnostic (%s)' % m.why, 'none')
        return
    last = diags[-1].split(' ')
    f = dec(last[1])
    line = int(last[2])
    want_file = m.err_file if getattr(m, 'err_file', None) else fname
    if f is None or f != want_file:
        st.violation('wrong-file', script, 'file %r (%s)' % (want_file, m.why), diags[-1])
        return
    if m.err_lines is not None:
        lo, hi = m.err_lines
        st.nontriv('%s@%d' % (m.why, lo))
        if not (lo <= line <= hi):
            st.violation('wrong-line:%s' % label, script, 'line %d..%d (%s)' % (lo, hi, m.why), diags[-1])


def judge_positions(st, sid, sch, case, res, m, fname):
    """the position every callback sees in the context it is handed (what a diagnostic issued from the callback carries):
    the last line of the token that completes the value / element / list / section / call it is invoked for"""
    if res.status in ('crash', 'hang') or m.verdict == UNSPEC:
        return
    got = [l for l in res.lines if l.startswith('cbpos ')]
    want = []
    for ev in m.res.events:
        tk = ev[-1]
        if tk is None:
            return
        want.append('cbpos %s %d' % (enc(tk.file if tk.file is not None else fname), tk.eline))
    # the statement fixes when a validation call happens, not how often: consecutive identical positions collapse
    def collapse(seq):
        out = []
        for x in seq:
            if not out or out[-1] != x:
                out.append(x)
        return out
    st.validated += 1
    if collapse(got) != collapse(want):
        script = 'schema %s %s\n%s' % (sid, sch.spec(), case.script())
        st.violation('wrong-position-seen-by-callback', script, '\n'.join(want) or '(no callback)', '\n'.join(got) or '(no callback)')


def shard_layout(shard):
    sid, flags, N, dev, prefixes, deadline = shard
    sch = FAM[sid]
    drv = get_driver('asan')
    drv.define_schema(sid, sch.spec())
    st = ShardStats('E1 N=%d, %d layout deviations' % (N % 100, dev))
    alpha = reduced_words(sch) if N >= 100 else words_for(sch)
    N = N % 100
    buf = []

    def flush():
        pre = ['cb_pos 1', 'cb_quiet 1'] if sid == 'CB1' else []
        cases = [Case(['init A %s %d' % (sid, flags)] + pre + ['parse_buf A ' + enc(t)]) for t, _ in buf]
        for (t, m), c, r in zip(buf, cases, drv.run(cases)):
            judge(st, sid, sch, c, r, m, b'[buf]', 'layout')
            if sid == 'CB1':
                judge_positions(st, sid, sch, c, r, m, b'[buf]')
            st.transitions += 1
            if len(st.samples) < 1 and m.verdict == REJECT and b'\n' in t:
                st.samples.append({'schema': sid, 'text': t.decode('latin-1'), 'expected_lines': m.err_lines, 'why': m.why})
        del buf[:]

    for prefix in prefixes:
        for words, m0 in e1_words(sch, flags, alpha, N, prefix):
            k = len(words)
            if m0.verdict == UNSPEC and m0.lex.status != 'OK':
                continue
            # positions 0..k-1 = separator before token k; position k = trailer
            if dev == 0:
                combos = [()]
            elif dev == 1:
                one = range(len(SEPS)) if N <= 4 or QUICK_FULL_SEPS else range(7)      # quick tier: the CR LF separators at N <= 4, the LF-based ones deeper
                combos = [((p, s),) for p in range(k + 1) for s in one]
            else:
                two = range(7) if QUICK_FULL_SEPS else (0, 1, 2, 4, 5)        # pairs of deviations: LF-based separators (quick: five of them); the others are covered singly
                combos = [((p, s), (q, t)) for p in range(k + 1) for q in range(p + 1, k + 1) for s in two for t in two]
            for combo in combos:
                seps = [b' '] * (k + 1)
                for p, s in combo:
                    seps[p] = SEPS[s]
                if k == 0:
                    text = seps[0] if seps[0] != b' ' else b''
                else:
                    parts = []
                    for j, w in enumerate(words):
                        if j > 0 or seps[0] != b' ':
                            parts.append(seps[j])
                        parts.append(w)
                    if seps[k] != b' ':
                        parts.append(seps[k])
                    text = b''.join(parts)
                m = reftext.meaning(sch, flags, text) if combo else m0
                buf.append((text, m))
            if len(buf) >= BATCH:
                flush()
                if time.time() > deadline:
                    st.complete = False
                    break
        if not st.complete:
            break
    if buf:
        flush()
    return st.result([drv])


def shard_include(shard):
    sid, flags, N, prefixes, deadline = shard
    sch = FAM[sid]
    drv = get_driver('asan')
    drv.define_schema(sid, sch.spec())
    root = engine.worker_root() + '-c06'
    if drv.rootdir != root:
        drv.set_root(root)
    st = ShardStats('E1 N=%d inside / after included files' % N)
    alpha = [w for w in words_for(sch) if w not in (b'include', b'(', b')')]
    buf = []

    def flush():
        cases = []
        for main, files, m in buf:
            lines = ['mkfile %s %s' % (enc(n), enc(c)) for n, c in files.items()]
            lines += ['init A %s %d' % (sid, flags), 'parse_buf A ' + enc(main)]
            cases.append(Case(lines))
        for (main, files, m), c, r in zip(buf, cases, drv.run(cases)):
            c.lines = ['root ' + enc(root)] + c.lines
            judge(st, sid, sch, c, r, m, b'[buf]', 'include')
            st.transitions += 1
            if len(st.samples) < 1 and m.verdict == REJECT and m.err_file:
                st.samples.append({'schema': sid, 'main': main.decode('latin-1'), 'files': {k.decode(): v.decode('latin-1') for k, v in files.items()},
                                   'expected_file': m.err_file.decode(), 'expected_lines': m.err_lines})
        del buf[:]

    def variants_of(T):
        return [
            (b'include("a.conf")', {b'a.conf': T}),
            (b'\ninclude("a.conf")\n\n', {b'a.conf': b'\n' + T + b'\n'}),
            (b'i = 7\ninclude("a.conf")\n' + T, {b'a.conf': b's = q\n\n'}),
            (b'include("a.conf")', {b'a.conf': b'\ninclude("b.conf")\ni = 7', b'b.conf': T}),
            (b'include("a.conf") ' + T, {b'a.conf': b'include("b.conf")\n', b'b.conf': b'\n\n# c\n'}),
            (b'sec {\ninclude("a.conf")\n}\n' + T, {b'a.conf': b'x = 3\n'}),
            (b'sec { x = 2 }\nm { }\ninclude("a.conf")', {b'a.conf': T}),
            (b'include("a.conf")\n' + T, {b'a.conf': b'sec { x = 2 }\nm { }\n'}),
            (b'include("a.conf")\ninclude("b.conf")', {b'a.conf': b'sec {\n}\n', b'b.conf': T}),
            # a section that begins in one source and ends in another at the same include depth (header / footer files),
            # one that an included file leaves open for the including one, one that an included file closes
            (b'include("a.conf")\ninclude("b.conf")', {b'a.conf': b'sec {\nx = 3\n', b'b.conf': b'\n}\n' + T}),
            (b'include("a.conf")\n}\n' + T, {b'a.conf': b'\n\nsec {\n'}),
            (b'sec {\ninclude("a.conf")\n' + T, {b'a.conf': b'x = 3\n\n}\n'}),
        ]
    # vacuity guard: with an accepted text in the slot every arrangement is accepted by the model
    for main, files in variants_of(b'i = 8'):
        m = reftext.meaning(sch, flags, main, files=reftext.Files(dict(files)))
        if m.verdict != ACCEPT:
            raise RuntimeError('machinery: include arrangement %r is %s (%s) with an accepted text in the slot' % (main, m.verdict, m.why))

    # calls of the include function itself that are refused: reported like every other rejected text
    if prefixes and list(prefixes[0]) == []:
        for main in (b'include()', b'i = 7\ninclude ( )', b'sec {\ninclude()\n}', b'include("a.conf", "b.conf")', b'\n\ninclude("a.conf",\n"b.conf")\n',
                     b'include("nope.conf")', b'sec { include("a.conf") include() }'):
            files = {b'a.conf': b'i = 1\n', b'b.conf': b''}
            buf.append((main, files, reftext.meaning(sch, flags, main, files=reftext.Files(dict(files)))))
    for prefix in prefixes:
        for words, m0 in e1_words(sch, flags, alpha, N, prefix):
            if m0.verdict == UNSPEC and m0.lex.status != 'OK':
                continue
            k = len(words)
            # layouts: all blanks; one newline before token p
            layouts = [b' '.join(words)] + [b' '.join(words[:p]) + b'\n' + b' '.join(words[p:]) for p in range(1, k)]
            for T in layouts:
                variants = variants_of(T)
                for main, files in variants:
                    m = reftext.meaning(sch, flags, main, files=reftext.Files(dict(files)))
                    buf.append((main, files, m))
            if len(buf) >= BATCH:
                flush()
                if time.time() > deadline:
                    st.complete = False
                    break
        if not st.complete:
            break
    if buf:
        flush()
    return st.result([drv])


def viable_prefix_words(sch, flags, alpha, depth):
    inner, frontier = [], []

    def rec(words):
        if len(words) == depth:
            frontier.append(tuple(words))
            return
        inner.append(tuple(words))
        m = reftext.meaning(sch, flags, b' '.join(words))
        if m.verdict == ACCEPT or (m.verdict == REJECT and m.res.verdict == INCOMPLETE and m.lex.status == 'OK'):
            for w in alpha:
                rec(words + [w])
    rec([])
    return inner, frontier


def main():
    ck = engine.Check(PID)
    if ck.replay:
        engine.replay_file(ck.replay)
        return
    engine.build(['asan'])
    quick = ck.tier == 'quick'
    dl = ck.deadline
    plan = [(4, 1), ('inc', 4), (6, 0), ('deep', 7), (5, 1), (4, 2)] if quick else [(5, 1), ('inc', 5), ('deep', 9), (6, 1), (5, 2), (7, 0), (7, 1), (6, 2)]   # cheap and diverse first
    # what the callbacks see: E1 N=5 [6] over the callback schema x 1 layout deviation
    sch = FAM['CB1']
    alpha = words_for(sch)
    inner, frontier = viable_prefix_words(sch, 0, alpha, 2)
    Ncb = 4 if quick else 5
    shards = [('CB1', 0, 0, 1, inner, dl)] + [('CB1', 0, Ncb, 1, ch, dl) for ch in engine.chunks(frontier, 3)]
    engine.phase(ck, 'positions seen by parse / validation / function callbacks: E1 N=%d x 1 layout deviation' % Ncb, shard_layout, shards, schemas=1)
    for (N, dev) in plan:
        if N == 'deep':
            # reduced alphabet, deeper: errors that need a whole section first (duplicate titles, errors after a closed section)
            shards = []
            for sid in ('F05', 'F07', 'F08', 'F11', 'F16', 'F06'):
                sch = FAM[sid]
                alpha = reduced_words(sch)
                inner, frontier = viable_prefix_words(sch, 0, alpha, 3)
                shards.append((sid, 0, 100, 1, inner, dl))
                for ch in engine.chunks(frontier, 2):
                    shards.append((sid, 0, 100 + dev, 1, ch, dl))
            engine.phase(ck, 'E1 reduced alphabet N=%d x 1 layout deviation' % dev, shard_layout, shards, schemas=6)
            continue
        if N == 'inc':
            sch = FAM['I1']
            alpha = [w for w in words_for(sch) if w not in (b'include', b'(', b')')]
            shards = []
            for flags in (0, CFGF['COMMENTS']):
                inner, frontier = viable_prefix_words(sch, flags, alpha, 2)
                shards.append(('I1', flags, 0, inner, dl))
                for ch in engine.chunks(frontier, 2):
                    shards.append(('I1', flags, dev, ch, dl))
            engine.phase(ck, 'E1 N=%d inside and after included files (depth 1, 2; sections re-entered from another source)' % dev, shard_include, shards, variants=9)
            continue
        shards = []
        for sid in (USE if not (quick and dev >= 2) else USE[:4]):
            sch = FAM[sid]
            alpha = words_for(sch)
            for flags in ((0, CFGF['COMMENTS']) if dev <= 1 else (0,)):
                inner, frontier = viable_prefix_words(sch, flags, alpha, 2)
                shards.append((sid, flags, 0, dev, inner, dl))
                for ch in engine.chunks(frontier, 3):
                    shards.append((sid, flags, N, dev, ch, dl))
        engine.phase(ck, 'E1 N=%d x %d layout deviation(s)' % (N, dev), shard_layout, shards, schemas=len(USE), separators=len(SEPS))
    ck.assumptions = ['the expected position of an error that concerns a whole item (duplicate title) is the line range of that item',
                      'UNSPEC texts are executed but not compared', 'callbacks that fail without reporting are outside this property']
    ck.finish('every E1 token sequence (incl. undeclared names and multi-line string tokens) x every placement of <= d non-default separators '
              '(newline, blank line, # // /* */ comments, two-line comment) before each token and at the end; non-trivial = distinct (reason, line)')


if __name__ == '__main__':
    main()
