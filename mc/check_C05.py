#!/usr/bin/env python3
"""C05 - printed configuration parses back to the same configuration.

States: (i) every accepted E1 text of the printable-kind schemas, (ii) every history of <= 2 API calls of
the C09 alphabet from its start states, (iii) string values, list elements, titles and annotations ranging
over all 255 single bytes and all strings of length <= 3 (2 quick) over a meta-character alphabet.
Oracle: print -> T1; a fresh context of the same schema accepts T1 and its dump equals the original's
(floats to the printed precision); print -> T2 = T1 when annotation support is off; a further
parse-and-print cycle always reproduces T2."""
import sys, os, time, itertools
sys.path.insert(0, os.path.dirname(os.path.abspath(__file__)))
import engine
from engine import Case, enc, ShardStats, get_driver
from model import ACCEPT, CFGF, Opt, Schema
import schemas as S
import trace
import apibfs
import refstore

PID = 'C05'
FAM = {s.sid: s for s in S.family_F()}
FAM['A1'] = apibfs.A1
FAM['S5'] = Schema('S5', [Opt('str', 'sv', 'S'), Opt('int', 'iv', 'S'), Opt('str', 's', '', b'd'), Opt('str', 'sl', 'L', [b'a']), Opt('int', 'i', '', 5), Opt('float', 'f', '', 1.5), Opt('bool', 'b', '', True),
                          Opt('sec', 'mt', 'MT', sub=[Opt('str', 'v', '', b'x'), Opt('int', 'l', 'L', [b'1'])]), Opt('sec', 'sec', '', sub=[Opt('str', 'w', '', b'y')]),
                          Opt('sec', 'kv', 'K', sub=[Opt('str', 'k0', '', b'v0')]),      # kv: free-form, its keys come from the text
                          Opt('sec', 'ts', 'T', sub=[Opt('int', 'q', '', 1)])])       # a single section declared with a title: its one instance never gets one
PRINTABLE = ['F01', 'F02', 'F03', 'F04', 'F05', 'F06', 'F07', 'F09', 'F10', 'F11', 'F15', 'F16', 'F18']
META = [b'a', b'"', b'\\', b'$', b'{', b'}', b'\n', b'\r', b'\t', b'#', b'/', b'*', b"'", b' ', b',', b'=', b'\x01', b'\x7f', b'\x80', b'\xff']
CM = CFGF['COMMENTS']


def rt_lines(sid, flags):
    return ['init B %s %d' % (sid, flags), 'dump A 16', 'roundtrip A B', 'dump B 16', 'init C %s %d' % (sid, flags), 'roundtrip B C',
            'init D %s %d' % (sid, flags), 'roundtrip C D']


def judge(st, sid, case, res, flags, label):
    st.evaluations += 1
    st.transitions += 3
    st.validated += 1
    script = 'schema %s %s\n%s' % (sid, FAM[sid].spec(), case.script())
    if res.status in ('crash', 'hang'):
        st.violation('%s:%s' % (res.status, engine.sanitizer_summary(res.info)), script, '', engine.excerpt(res.info))
        return
    rts = res.all('r roundtrip')
    dumps = res.all('dump ')
    if len(rts) != 3 or len(dumps) < 2:
        st.violation('protocol', script, '3 roundtrips', res.text()[-400:])
        return
    parts = [r.split(' ') for r in rts]
    rc = [p[2] for p in parts]
    text = [p[3] if len(p) > 3 else '' for p in parts]
    st.outcome(text[0])
    st.nontriv(text[0])
    if rc[0] != '0':
        st.violation('printed-text-rejected:%s' % label, script, 'r roundtrip 0', ' '.join(parts[0][:3]) + ' ' + engine.dec(text[0]).decode('latin-1')[:300] + ' | ' + ' '.join(res.all('diag ')[:1]))
        return
    if dumps[-2] != dumps[-1]:
        st.violation('reparsed-configuration-differs:%s' % label, script, dumps[-2], dumps[-1] + '\n printed: ' + engine.dec(text[0]).decode('latin-1')[:300])
        return
    if rc[1] != '0' or rc[2] != '0':
        st.violation('second-cycle-rejected:%s' % label, script, 'r roundtrip 0', ' '.join(rc))
        return
    if not (flags & CM) and text[1] != text[0]:
        st.violation('second-print-differs:%s' % label, script, engine.dec(text[0]).decode('latin-1'), engine.dec(text[1]).decode('latin-1'))
        return
    if text[2] != text[1]:
        st.violation('print-not-stable:%s' % label, script, engine.dec(text[1]).decode('latin-1'), engine.dec(text[2]).decode('latin-1'))


def shard_e1(sh):
    sid, N, prefixes, deadline = sh
    sch = FAM[sid]
    drv = get_driver('asan')
    drv.define_schema(sid, sch.spec())
    st = ShardStats('E1 states N=%d' % N)
    alpha = S.alphabet_for(sch)
    buf = []

    def flush():
        cases = [Case(['init A %s %d' % (sid, fl), 'parse_buf A ' + enc(t)] + rt_lines(sid, fl)) for t, fl in buf]
        for (t, fl), c, r in zip(buf, cases, drv.run(cases)):
            judge(st, sid, c, r, fl, 'parsed-state')
            if len(st.samples) < 1 and len(t) > 12:
                st.samples.append({'schema': sid, 'state_from_text': t, 'flags': fl})
        del buf[:]
    for prefix in prefixes:
        for node in trace.e1(sch, 0, alpha, N, prefix):
            if node.verdict == ACCEPT and node.res.items:
                for fl in (0, CM):
                    buf.append((trace.text_of(node.words), fl))
            if len(buf) >= 200:
                flush()
                if time.time() > deadline:
                    st.complete = False
                    break
        if not st.complete:
            break
    if buf:
        flush()
    return st.result([drv])


def shard_api(sh):
    start, firsts, ops, deadline = sh
    drv = get_driver('asan')
    drv.define_schema('A1', apibfs.A1.spec())
    st = ShardStats('API states depth <= 2')
    for f in firsts:
        cases = []
        pre = list(f) if isinstance(f, list) else [f]
        hists = [pre] + [pre + [o] for o in ops]
        for h in hists:
            for fl in (0, CM):
                if not fl and any(o[0] == 'setcomment' for o in h):
                    continue        # annotating without CFGF_COMMENTS is outside the documented use
                lines = ['init A A1 %d' % fl]
                if start:
                    lines.append('parse_buf A ' + enc(start))
                lines += [refstore.driver_line(o)[0] for o in h]
                cases.append((Case(lines + rt_lines('A1', fl)), fl))
        for (c, fl), r in zip(cases, drv.run([c for c, _ in cases])):
            judge(st, 'A1', c, r, fl, 'api-state')
        if time.time() > deadline:
            st.complete = False
            break
    if not st.samples:
        st.samples.append({'start_text': start.decode('latin-1'), 'first_op': repr(firsts[0]) if firsts else None, 'then_each_of': len(ops)})
    return st.result([drv])


def place(pos, val):
    """driver lines that put the byte string val at one position of schema S5"""
    if pos == 'scalar':
        return ['setstr A %s %s' % (enc(b's'), enc(val))]
    if pos == 'list':
        return ['setlist A %s str 3 %s %s %s' % (enc(b'sl'), enc(b'first'), enc(val), enc(b'last'))]
    if pos == 'title':
        return ['addtsec A %s %s' % (enc(b'mt'), enc(b'plain')), 'addtsec A %s %s' % (enc(b'mt'), enc(val)), 'addtsec A %s %s' % (enc(b'mt'), enc(b'zz'))]
    if pos == 'nested':
        return ['addtsec A %s %s' % (enc(b'mt'), enc(b't')), 'setstr A %s %s' % (enc(b'mt=t|v'), enc(val)), 'setstr A %s %s' % (enc(b'sec|w'), enc(val))]
    if pos == 'key':
        # the byte string as a key of the free-form section (written as a double-quoted literal)
        lit = b'"' + val.replace(b'\\', b'\\\\').replace(b'"', b'\\"').replace(b'$', b'\\$') + b'"'
        return ['parse_buf A ' + enc(b'kv { ' + lit + b' = v1 second = v2 }')]
    if pos == 'simple':
        # a 'simple' option: the string lives in the caller's variable
        return ['setstr A %s %s' % (enc(b'sv'), enc(val)), 'setint A %s 7' % enc(b'iv')]
    if pos == 'annotation':
        # on top-level options and on options one level down (printed indented)
        return ['setcomment A %s %s' % (enc(b's'), enc(val)), 'setcomment A %s %s' % (enc(b'sl'), enc(val)), 'addtsec A %s %s' % (enc(b'mt'), enc(b't')),
                'setcomment A %s %s' % (enc(b'mt=t|v'), enc(val)), 'setcomment A %s %s' % (enc(b'sec|w'), enc(val))]
    raise ValueError(pos)


NUMBER_STATES = [
    ['setint A %s -1' % enc(b'i')], ['setint A %s 0' % enc(b'i')], ['setint A %s 9223372036854775807' % enc(b'i')], ['setint A %s -9223372036854775808' % enc(b'i')],
    ['setfloat A %s -2.5' % enc(b'f')], ['setfloat A %s 1e20' % enc(b'f')], ['setfloat A %s 1e-7' % enc(b'f')], ['setfloat A %s 0' % enc(b'f')],
    ['setfloat A %s 123456.789' % enc(b'f')], ['setbool A %s 0' % enc(b'b')], ['setbool A %s 1' % enc(b'b')],
    ['parse_buf A ' + enc(b'mt a { l = {-1, 0, 0x7fffffffffffffff, 010} } mt b { l = {} v = "" }')],
    ['parse_buf A ' + enc(b'sl = {} i = -0 f = -0.0')], ['parse_buf A ' + enc(b'sl = {"", "", ""} mt "" { }')],
    ['setlist A %s str 0' % enc(b'sl'), 'addtsec A %s %s' % (enc(b'mt'), enc(b'only'))],
]


def shard_numbers(sh):
    deadline = sh
    drv = get_driver('asan')
    drv.define_schema('S5', FAM['S5'].spec())
    st = ShardStats('number / empty states')
    cases = []
    for a in NUMBER_STATES:
        for b in [[]] + NUMBER_STATES:
            for fl in (0, CM):
                cases.append((Case(['init A S5 %d' % fl] + a + b + rt_lines('S5', fl)), fl))
    for (c, fl), r in zip(cases, drv.run([c for c, _ in cases])):
        judge(st, 'S5', c, r, fl, 'numbers')
    st.samples.append({'states': 'pairs of %d number / empty-value operations' % len(NUMBER_STATES)})
    return st.result([drv])


def shard_scratch(sh):
    """an annotation read back after quoted strings of other lengths in the same text (the scanner collects all three in one
    scratch buffer): a long string, a shorter one, then a comment of every length up to the long one"""
    deadline = sh
    drv = get_driver('asan')
    drv.define_schema('S5', FAM['S5'].spec())
    st = ShardStats('annotation after strings of other lengths')
    cases = []
    for longlen in (24, 40):
        for shortlen in (0, 1, 5):
            for clen in range(1, longlen + 2):
                text = (b'word ' * 10)[:clen].rstrip() or b'w'
                a = ['setstr A %s %s' % (enc(b's'), enc(b'x' * longlen)), 'setlist A %s str 1 %s' % (enc(b'sl'), enc(b'y' * shortlen)),
                     'setcomment A %s %s' % (enc(b'i'), enc(text)), 'setcomment A %s %s' % (enc(b'mt'), enc(text))]
                cases.append((Case(['init A S5 %d' % CM] + a + rt_lines('S5', CM)), CM))
    for (c, fl), r in zip(cases, drv.run([c for c, _ in cases])):
        judge(st, 'S5', c, r, fl, 'scratch')
        if time.time() > deadline:
            st.complete = False
            break
    st.samples.append({'states': 's = 24 / 40 bytes, sl = {0 / 1 / 5 bytes}, annotation of every length 1..41 on the next option'})
    return st.result([drv])


def shard_strings(sh):
    positions, values, deadline = sh
    drv = get_driver('asan')
    drv.define_schema('S5', FAM['S5'].spec())
    st = ShardStats('string positions')
    cases = []
    for v in values:
        for pos in positions:
            for fl in ((0, CM) if pos != 'annotation' else (CM,)):
                if pos == 'title' and v in (b'plain', b'zz'):
                    continue
                cases.append((Case(['init A S5 %d' % fl] + place(pos, v) + rt_lines('S5', fl)), fl, pos, v))
    for ch in engine.chunks(cases, 200):
        for (c, fl, pos, v), r in zip(ch, drv.run([c for c, _, _, _ in ch])):
            judge(st, 'S5', c, r, fl, pos)
        if time.time() > deadline:
            st.complete = False
            break
    if not st.samples and cases:
        st.samples.append({'position': cases[0][2], 'value_bytes': repr(cases[0][3])})
    return st.result([drv])


def main():
    ck = engine.Check(PID)
    if ck.replay:
        engine.replay_file(ck.replay)
        return
    engine.build(['asan'])
    quick = ck.tier == 'quick'
    dl = ck.deadline
    positions = ['scalar', 'list', 'title', 'nested', 'annotation', 'key', 'simple']
    singles = [bytes([b]) for b in range(1, 256)]
    engine.phase(ck, 'all 255 single bytes at 7 positions', shard_strings, [(positions, list(ch), dl) for ch in engine.chunks(singles, 8)], values=255)
    L = 3 if quick else 4
    strs = []
    for n in range(2, L + 1):
        strs += [b''.join(t) for t in itertools.product(META, repeat=n)]
    strs += [b'${HOME}', b'a${HOME}b', b'${X:-d}', b'$' + b'{', b'\\"', b'"\\', b'/*', b'*/', b'x*/y', b'a\n*/\nb', b'//', b'# c', b'', b' lead', b'trail ', b'\\n', b"it's", b'ti"tle']
    engine.phase(ck, 'all strings of length 2..%d over %d meta characters at 7 positions' % (L, len(META)), shard_strings,
                 [(positions, list(ch), dl) for ch in engine.chunks(strs, 12 if quick else 200)], values=len(strs))
    engine.phase(ck, 'boundary numbers, negative zero, empty lists / strings / titles', shard_numbers, [dl])
    engine.phase(ck, 'an annotation of every length 1..41 read back after a long and a shorter quoted string', shard_scratch, [dl])
    N = 6 if quick else 8
    shards = []
    for sid in PRINTABLE:
        sch = FAM[sid]
        alpha = S.alphabet_for(sch)
        inner, frontier = trace.viable_prefixes(sch, 0, alpha, 2)
        for ch in engine.chunks(frontier, 6):
            shards.append((sid, N, ch, dl))
    engine.phase(ck, 'states reached by accepted E1 texts N=%d' % N, shard_e1, shards, schemas=len(PRINTABLE))
    # a setter handed the NULL that the getter returns for a missing element stores a NULL string; NULL is not a string the text
    # can denote (the statement speaks of strings byte-for-byte), so the getter-to-setter operations stay with C07 / C09 (where the
    # store model says which of them are defined); the states they reach otherwise are those of the plain string setters
    ops = [o for o in apibfs.ops_alphabet() if o[0] not in ('setfrom', 'setlistfrom', 'setoptfrom')]
    shards = [(s, [f], ops, dl) for s in apibfs.STARTS for f in ops]
    engine.phase(ck, 'states reached by <= 2 API calls from %d start states' % len(apibfs.STARTS), shard_api, shards, operations=len(ops))
    if not quick:
        shards = [(s, [[f, g] for g in ops], ops, dl) for s in apibfs.STARTS for f in ops]
        engine.phase(ck, 'states reached by 3 API calls from %d start states' % len(apibfs.STARTS), shard_api, shards, operations=len(ops))
    ck.assumptions = ['strings contain no NUL byte (C strings)', 'floats are compared to the printed precision (%f)',
                      'the re-parsed configuration is compared on sections, titles, list lengths and values, not on annotations']
    ck.finish('state (parsed text / API history / byte string at a position) -> print, parse into a fresh context, compare, two more cycles; '
              'non-trivial = distinct printed texts')


if __name__ == '__main__':
    main()
