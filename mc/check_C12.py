#!/usr/bin/env python3
"""C12 - with ignore-unknown set, undeclared items are skipped cleanly.

Base texts (accepted, nested schema) x every item boundary at every depth x every well-formed unknown
item of a recursive generator (assignment, list, append, call, plain / titled section with nested
content), inserted singly and in pairs; plus the nesting-depth family up to 10^4 (10^5 thorough).
Oracle: with the flag the return code and the dump equal those of the base text and no diagnostic is
produced; without the flag the text is rejected with a diagnostic."""
import sys, os, time, itertools
sys.path.insert(0, os.path.dirname(os.path.abspath(__file__)))
import engine
from engine import Case, enc, ShardStats, get_driver
from model import Opt, Schema, dump_sec, CFGF, ACCEPT, REJECT, UNSPEC
import reftext
import reflex

PID = 'C12'
G1 = Schema('G1', [Opt('int', 'i', '', 5), Opt('int', 'l', 'L', [b'1']),
                   Opt('sec', 's', '', sub=[Opt('int', 'x', '', 1), Opt('sec', 't', '', sub=[Opt('int', 'y', '', 2)])]),
                   Opt('sec', 'm', 'M', sub=[Opt('int', 'x', '', 1)]), Opt('sec', 'mt', 'MT', sub=[Opt('int', 'x', '', 1)]),
                   Opt('func', 'fn', '', None, 'u'), Opt('sec', 'kv', 'K', sub=[Opt('str', 'k0', '', b'd')]),
                   Opt('sec', 'kvm', 'KMT', sub=[Opt('str', 'k0', '', b'd')]), Opt('int', 'd', 'D', 5), Opt('int', 'dx', 'DX', 5)])
BASES = [b'', b'i = 7', b'i = 7 l += {2}', b's { x = 3 }', b's { x = 3 t { y = 4 } }', b'm { x = 5 } m { }', b'mt a { x = 2 } i = 3',
         b'i = 7 l += {2} s { x = 3 t { y = 4 } } m { x = 5 } m { } fn(a) mt b { }', b'l = {3, 4} fn() s { t { } }',
         b'kv { k0 = z } i = 7', b'kvm a { } kvm b { k0 = y } kv { }',
         b'd = 1 i = 2', b'dx = 4 i = 2 d = 3']      # deprecated options: their notice is the base text's own diagnostic, once per use
IG = CFGF['IGNORE_UNKNOWN']


def atoms(name):
    n = name
    return [n + b' = v', n + b' = {}', n + b' = {a}', n + b' = {a, b}', n + b' += v', n + b' += {a}', n + b'()', n + b'(a)', n + b'(a, b)',
            n + b' = "q r"', n + b" = 'x'"]


def gen(depth, names=(b'u', b'i')):
    """all unknown-item bodies: returns list of item texts whose *first* name is 'u' (undeclared)"""
    def level(d, name):
        out = list(atoms(name))
        if d == 0:
            return out
        inner = []
        for nm in names:
            inner += level(d - 1, nm)
        bodies = [b'']
        bodies += inner
        if d == 1:
            bodies += [a + b' ' + b for a in inner[:12] for b in inner[:12]]
        for body in bodies:
            out.append(name + b' { ' + body + (b' ' if body else b'') + b'}')
            out.append(name + b' t { ' + body + (b' ' if body else b'') + b'}')
        return out
    return level(depth, b'u')


def insertion_points(base):
    """byte offsets in the base text at which an item may be inserted: before every item, at the end of
    every section body, at the end of the text"""
    m = reftext.meaning(G1, 0, base)
    assert m.verdict == ACCEPT, base
    # token start offsets: re-scan to find them (tokens are separated by single blanks in the bases)
    offs, pos = [], 0
    words = base.split(b' ') if base else []
    # bases contain "{2}" style words: use the lexer's tokens in order and find them sequentially
    toks = m.lex.toks
    pos = 0
    for t in toks:
        if t.k == 'S':
            w = t.t
            k = base.find(w, pos)
            q = base.find(b'"' + w + b'"', pos)
        elif t.k == 'C':
            w = b'/*' + t.t + b'*/'        # the only comment form the base texts use
            k = base.find(w, pos)
            assert k >= 0
        else:
            w = {'+': b'+='}.get(t.k, t.k.encode())
            k = base.find(w, pos)
        offs.append(k)
        pos = k + len(w)
    pts = set([len(base)])
    for (start, end, depth, kind) in m.res.items:
        pts.add(offs[start])
        if kind == 'sec':
            pts.add(offs[end - 1])     # before the closing brace
    return sorted(pts)


def insert(base, off, item):
    left, right = base[:off], base[off:]
    return left + (b'' if not left or left.endswith(b' ') else b' ') + item + (b' ' if right else b'') + right


def run(st, drv, items, annotated=False):
    """items: (base, text_with_unknowns).  annotated: annotation support is on as well and the compared image includes the
    annotations; the expected image is then the reference parser's for the whole text (a comment directly in front of an
    unknown item goes away with it, so it must not reach the next declared option)"""
    cases, metas = [], []
    for base, text in items:
        if annotated:
            mb = reftext.meaning(G1, IG | CFGF['COMMENTS'], text)
            assert mb.verdict == ACCEPT, text
            exp_dump = 'dump ' + dump_sec(mb.store, 4)
            cases.append(Case(['init A G1 %d' % (IG | CFGF['COMMENTS']), 'cb_quiet 1', 'parse_buf A ' + enc(text), 'dump A 4']))
        else:
            mb = reftext.meaning(G1, 0, base)
            exp_dump = 'dump ' + dump_sec(mb.store, 0)
            cases.append(Case(['init A G1 %d' % IG, 'cb_quiet 1', 'parse_buf A ' + enc(text), 'dump A 0']))
        metas.append(('with', base, text, exp_dump, len(reftext.meaning(G1, 0, base).res.deprecated)))
        cases.append(Case(['init A G1 0', 'cb_quiet 1', 'parse_buf A ' + enc(text)]))
        metas.append(('without', base, text, None, 0))
    results = drv.run(cases)
    for c, r, (mode, base, text, exp_dump, ndep) in zip(cases, results, metas):
        st.evaluations += 1
        st.transitions += 1
        st.validated += 1
        script = 'schema G1 %s\n%s' % (G1.spec(), c.script())
        if r.status in ('crash', 'hang'):
            st.violation('%s:%s' % (r.status, engine.sanitizer_summary(r.info)), script, 'a return code', engine.excerpt(r.info))
            continue
        rc = r.first('r parse_buf')
        diags = r.all('diag ')
        st.outcome('%s %s %d' % (mode, rc, len(diags)))
        if mode == 'with':
            dump = r.first('dump ')
            if rc != 'r parse_buf 0':
                st.violation('unknown-item-not-skipped', script, 'r parse_buf 0', (rc or 'none') + ' ' + ' '.join(diags[:2]))
            elif dump != exp_dump:
                st.violation('unknown-item-changed-values', script, exp_dump, dump or 'none')
            elif len(diags) != ndep:
                st.violation('diagnostic-for-skipped-item', script, 'no diagnostic besides the %d deprecation notice(s) of the base text' % ndep, ' | '.join(diags[:4]))
            st.nontriv(text)
        else:
            # without the flag an undeclared item is an error - except where the language makes it a declaration of its
            # own (a key = value inside a free-form section); the reference parser decides
            m0 = reftext.meaning(G1, 0, text)
            if m0.verdict == UNSPEC:
                st.unspec += 1
            elif m0.verdict == ACCEPT:
                if rc != 'r parse_buf 0':
                    st.violation('free-form-key-rejected-without-flag', script, 'r parse_buf 0', rc or 'none')
            elif rc != 'r parse_buf 1':
                st.violation('unknown-accepted-without-flag', script, 'r parse_buf 1', rc or 'none')
            elif not diags:
                st.violation('no-diagnostic-without-flag', script, 'a diagnostic', 'none')
        if len(st.samples) < 1 and len(text) > 25 and mode == 'with':
            st.samples.append({'base': base.decode('latin-1'), 'text': text.decode('latin-1'), 'expected': ['r parse_buf 0', exp_dump, 'no diagnostic']})


def shard_single(sh):
    base, items, deadline = sh
    drv = get_driver('asan')
    drv.define_schema('G1', G1.spec())
    st = ShardStats('single insertion')
    pts = insertion_points(base)
    buf = []
    for it in items:
        for off in pts:
            buf.append((base, insert(base, off, it)))
        if len(buf) >= 200:
            run(st, drv, buf)
            buf = []
            if time.time() > deadline:
                st.complete = False
                break
    if buf:
        run(st, drv, buf)
    return st.result([drv])


CBASES = [b'i = 7', b'i = 7 l += {2}', b'/*b*/ i = 7 /*d*/ l = {2}', b's { x = 3 t { y = 4 } } i = 2', b's { /*b*/ x = 3 } m { x = 5 } i = 2',
          b'kv { k0 = z } i = 7']


def shard_commented(sh):
    base, items, deadline = sh
    drv = get_driver('asan')
    drv.define_schema('G1', G1.spec())
    st = ShardStats('commented unknown item, annotation support on')
    pts = insertion_points(base)
    buf = []
    for it in items:
        for off in pts:
            for cm in (b'/* c */ ', b'# c\n', b''):
                buf.append((base, insert(base, off, cm + it)))
        # a comment between any two tokens of the item itself (in its head: name, title, '=', '+=', '(' - or in its body)
        if b'"' not in it and b"'" not in it:
            words = it.split(b' ')
            for k in range(1, len(words)):
                for cm in (b'/* c */', b'# c\n', b'//\n'):
                    inner = b' '.join(words[:k]) + b' ' + cm + b' ' + b' '.join(words[k:])
                    for off in (pts[0], pts[-1]) if len(pts) > 1 else pts:
                        buf.append((base, insert(base, off, inner)))
        if len(buf) >= 200:
            run(st, drv, buf, annotated=True)
            buf = []
            if time.time() > deadline:
                st.complete = False
                break
    if buf:
        run(st, drv, buf, annotated=True)
    return st.result([drv])


def shard_pairs(sh):
    base, firsts, seconds, deadline = sh
    drv = get_driver('asan')
    drv.define_schema('G1', G1.spec())
    st = ShardStats('pair insertion')
    pts = insertion_points(base)
    buf = []
    for a in firsts:
        for b in seconds:
            for off in pts:
                buf.append((base, insert(base, off, a + b' ' + b)))
            if len(buf) >= 200:
                run(st, drv, buf)
                buf = []
        if time.time() > deadline:
            st.complete = False
            break
    if buf:
        run(st, drv, buf)
    return st.result([drv])


def shard_depth(sh):
    ns, variant, deadline = sh
    drv = get_driver(variant)
    drv.define_schema('G1', G1.spec())
    st = ShardStats('depth family')
    for n in ns:
        for shape, text in (('plain', b'u { ' * n + b'a = 1 ' + b'} ' * n + b'i = 7'), ('titled', b'u t { ' * n + b'} ' * n + b'i = 7'),
                            ('lists', b'u { ' * n + b'a = {1, 2} ' + b'} ' * n + b'i = 7')):
            mb = reftext.meaning(G1, 0, b'i = 7')
            c = Case(['init A G1 %d' % IG, 'parse_buf A ' + enc(text), 'dump A 0'], fork=True, horizon=30 + n // 1000)
            r = drv.run([c])[0]
            if r.status == 'hang':
                c = Case(c.lines, fork=True, horizon=6 * (30 + n // 1000))
                r = drv.run([c])[0]
            st.evaluations += 1
            st.transitions += 1
            st.validated += 1
            c.lines = ['note depth family shape=%s n=%d variant=%s' % (shape, n, variant)] + (c.lines if n <= 100 else ['note text generated from the shape'])
            script = 'schema G1 %s\n%s' % (G1.spec(), c.script())
            if r.status in ('crash', 'hang'):
                st.violation('%s:%s' % (r.status, engine.sanitizer_summary(r.info)), script, 'r parse_buf 0', engine.excerpt(r.info))
                continue
            st.outcome(r.first('r parse_buf') or '')
            st.nontriv('%s/%d' % (shape, n))
            if r.first('r parse_buf') != 'r parse_buf 0' or r.first('dump ') != 'dump ' + dump_sec(mb.store, 0) or r.all('diag '):
                st.violation('deep-unknown-not-skipped', script, 'r parse_buf 0 + base dump, no diagnostic', r.text()[:300])
    st.samples.append({'depth_family': 'u { ' + '... n times ... a = 1 } ... i = 7', 'n': list(ns)})
    return st.result([drv])


def main():
    ck = engine.Check(PID)
    if ck.replay:
        engine.replay_file(ck.replay)
        return
    quick = ck.tier == 'quick'
    engine.build(['asan'] if quick else ['asan', 'plain'])
    dl = ck.deadline
    # machinery self-check: the generator only produces items the reference model calls well-formed unknown items
    for it in gen(2)[:400]:
        m = reftext.meaning(G1, IG, it + b' i = 7')
        assert m.verdict == ACCEPT and m.res.unknown_items >= 1, it
    d1, d2 = gen(1), gen(2)
    # unknown names written as paths through declared sections to an undeclared leaf: unknown like any other
    # ... and names that begin with a separator in front of a declared name: a stray separator resolves nothing
    for nm in (b's|zz', b'"s|t|zz"', b'"m=0|zz"', b'|i', b'||i', b'|s', b'"|m=0|x"', b'"m=|x"', b'"mt=|x"', b'"s|t=|y"'):       # ... or have a qualifier with nothing in it
        d1 += atoms(nm) + [nm + b' { }', nm + b' t { a = 1 }', nm + b' { i = x u { } }']
    # ... and names that are a proper prefix of a declared name, or a declared name with something appended
    for nm in (b'k', b'f', b'mtt', b'kvmx'):
        d1 += atoms(nm) + [nm + b' { }', nm + b' t { a = 1 }']
    shards = [(b, list(ch), dl) for b in BASES for ch in engine.chunks(d1, 40)]
    engine.phase(ck, 'single unknown item of nesting <= 1 at every boundary', shard_single, shards, items=len(d1), bases=len(BASES))
    ns = list(range(1, 11)) + [100, 1000, 10000]
    engine.phase(ck, 'nesting-depth family up to 10^4', shard_depth, [([n], 'asan', dl) for n in ns])
    shards = [(b, list(ch), dl) for b in BASES[:6] for ch in engine.chunks(d2, 60)]
    engine.phase(ck, 'single unknown item of nesting <= 2 at every boundary', shard_single, shards, items=len(d2), bases=6)
    a1 = atoms(b'u') + [b'u { }', b'u t { }', b'u { a = 1 }', b'u { i = x }', b'u t { a() }']
    shards = [(b, [a], a1, dl) for b in BASES for a in a1]
    engine.phase(ck, 'pairs of unknown items at every boundary', shard_pairs, shards, pairs=len(a1) ** 2)
    shards = [(b, list(ch), dl) for b in CBASES for ch in engine.chunks(d1, 40)]
    engine.phase(ck, 'commented unknown item of nesting <= 1 at every boundary, annotation support on', shard_commented, shards, items=len(d1), bases=len(CBASES))
    if not quick:
        d3 = [b'u { ' + x + b' }' for x in d2] + [b'u t { ' + x + b' }' for x in d2]
        shards = [(b, list(ch), dl) for b in BASES[3:5] for ch in engine.chunks(d3, 80)]
        engine.phase(ck, 'single unknown item of nesting 3', shard_single, shards, items=len(d3))
        shards = [(BASES[7], [a], d1, dl) for a in d1]
        engine.phase(ck, 'pairs from the nesting <= 1 set on the richest base text', shard_pairs, shards, pairs=len(d1) ** 2)
        shards = [(b, list(ch), dl) for b in CBASES[:4] for ch in engine.chunks(d2, 60)]
        engine.phase(ck, 'commented unknown item of nesting <= 2 at every boundary, annotation support on', shard_commented, shards, items=len(d2), bases=4)
        engine.phase(ck, 'nesting-depth family 10^5 (plain build, 8 MiB stack)', shard_depth, [([100000], 'plain', dl)])
    ck.assumptions = ['malformed unknown items are unspecified and never generated', 'inner names of unknown sections include declared names with '
                      'unconvertible values: they must be skipped, not applied']
    ck.finish('base text x insertion point (before every item, at the end of every section body, at the end) x unknown item from a recursive '
              'generator; each text is run with and without the flag; non-trivial = distinct texts with an inserted item')


if __name__ == '__main__':
    main()
