"""refstore.py - the abstract typed store behind the setter / list / section API (C09, C10).

An operation is a tuple; apply(store, op) mutates the SecState tree (model.py) and returns the
return value the API must give: 0 / -1 for int-returning calls, 1 / 0 for "returns a pointer / NULL".
Returns None when the statements leave the outcome open (UNSPEC): the transition is then executed
but not compared and not extended.

  ('set', kind, path, value, index|None)      cfg_set<kind> / cfg_setn<kind> by name
  ('oset', kind, path, value, index)          cfg_opt_setn<kind> on the option itself
  ('setlist', path, kind, [values])           cfg_setlist
  ('addlist', path, kind, [values])           cfg_addlist
  ('setmulti', path, [texts])                 cfg_setmulti
  ('setopt', path, text)                      cfg_setopt on the option itself (set-from-text)
  ('setcomment', path, text)                  cfg_setcomment
  ('addtsec', path, title)                    cfg_addtsec
  ('rmnsec', path, index) ('rmtsec', path, title) ('rmsec', path)
"""
from model import SecState, OptState, convert, ACCEPT, UNSPEC, REJECT
from engine import enc

OK, FAIL = 0, -1
UNKNOWN = '?'      # three-valued modified flag: True / False / UNKNOWN


def teq(sec, a, b):
    """title equality: exact, or - in a case-insensitive context - up to the case of ASCII letters"""
    if a == b:
        return True
    if a is None or b is None or not sec.nocase:
        return False
    return a.lower() == b.lower() and all(c < 128 for c in a + b)


def resolve(store, path):
    """path with '|' separators and name=title / name=index qualifiers -> (section, optstate) or None.
    Only the plain forms the C09 alphabet uses; the full mini-language is refpath (C11)."""
    sec = store
    steps = path.split(b'|')
    for k, step in enumerate(steps):
        last = k == len(steps) - 1
        name, _, qual = step.partition(b'=')
        o = sec.find(name)
        if o is None:
            return None
        if last and not qual:
            return (sec, o)
        if o.decl.kind != 'sec':
            return None
        if qual:
            if not o.decl.has('M'):
                return None
            if o.decl.has('T'):
                idx = None
                for j, s in enumerate(o.values):
                    if teq(sec, s.title, qual):
                        idx = j
                        break
                if idx is None:
                    return None
            else:
                try:
                    idx = int(qual)
                except ValueError:
                    return None
            if idx < 0 or idx >= len(o.values):
                return None
            sub = o.values[idx]
        else:
            if not o.values:
                return None
            sub = o.values[0]
        if last:
            return (sec, o, sub)
        sec = sub
    return None


def _opt(store, path):
    r = resolve(store, path)
    if r is None or len(r) != 2:
        return None
    return r[1]


def _kind_ok(o, kind):
    return o.decl.kind == kind


def _store_at(o, v, index):
    if o.pristine:
        o.values = []
        o.pristine = False
    if index < len(o.values):
        o.values[index] = v
    else:
        o.values.append(v)
    o.modified = True


def apply(store, op):
    t = op[0]
    if t == 'setoptfrom':
        # set-from-text handed the string the option itself returns for one of its elements
        _, path, sidx = op
        so = _opt(store, path)
        if so is None or so.decl.kind != 'str' or so.decl.has('S') or sidx >= len(so.values) or so.values[sidx] is None or 'p' in so.decl.cbs:
            return None
        return apply(store, ('setopt', path, so.values[sidx]))
    if t == 'setlistfrom':
        # a string list set to a selection of its own elements, each handed over as the getter returned it
        _, path, idxs = op
        so = _opt(store, path)
        if so is None or so.decl.kind != 'str' or not so.decl.is_list or any(k >= len(so.values) or so.values[k] is None for k in idxs):
            return None
        return apply(store, ('setlist', path, 'str', [so.values[k] for k in idxs]))
    if t == 'setfrom':
        # the string the getter returns for (src, sidx) handed straight back to the by-name setter: the same as setting a copy
        _, path, index, src, sidx = op
        so = _opt(store, src)
        if so is None or so.decl.kind != 'str' or so.decl.has('S') or sidx >= len(so.values) or so.values[sidx] is None:
            return None
        return apply(store, ('set', 'str', path, so.values[sidx], index))
    if t in ('set', 'oset'):
        _, kind, path, value, index = op
        if value is None:
            return None         # a NULL string: executed (sanitizers, hygiene), its meaning is not described
        o = _opt(store, path)
        if o is None or not _kind_ok(o, kind) or o.decl.kind in ('sec', 'func', 'ptr'):
            return FAIL
        idx = 0 if index is None else index
        if idx != 0 and not o.decl.is_list:
            return FAIL
        if o.decl.has('S'):
            o.simple = value
            o.modified = True
            return OK
        _store_at(o, value, idx)
        return OK
    if t in ('setlist', 'addlist'):
        _, path, kind, values = op
        o = _opt(store, path)
        if o is None or not o.decl.is_list:
            return FAIL
        if not _kind_ok(o, kind):
            return None     # variadic call with arguments of the wrong C type: undefined behaviour, never generated
        if t == 'setlist':
            o.values = list(values)
            if values:
                o.modified = True
                o.pristine = False
            else:
                o.modified = UNKNOWN if o.modified is not True else True
        else:
            if not values and o.pristine:
                return None     # an append of nothing to a list that still holds its defaults: whether that commits the defaults is not described
            o.values = o.values + list(values)
            if values:
                o.modified = True
                o.pristine = False
        return OK
    if t == 'setmulti':
        _, path, texts = op
        o = _opt(store, path)
        if o is None or not texts:
            return FAIL
        if o.decl.kind in ('sec', 'func'):
            return None
        if not o.decl.is_list and len(texts) > 1:
            return None     # several values for a scalar: not described anywhere
        vals = []
        for x in texts:
            v, val = convert(o.decl, x)
            if v == UNSPEC:
                return None
            if v != ACCEPT:
                return FAIL
            vals.append(val)
        if o.decl.has('S'):
            o.simple = vals[-1]      # the caller's variable holds the value
            o.modified = True
            return OK
        o.values = vals
        o.pristine = False
        o.modified = True
        return OK
    if t == 'setopt':
        _, path, text = op
        o = _opt(store, path)
        if o is None or o.decl.kind in ('sec', 'func'):
            return None
        v, val = convert(o.decl, text)
        if v == UNSPEC:
            return None
        if v != ACCEPT:
            return 0        # NULL
        if o.decl.has('S'):
            o.simple = val
            o.modified = True
            return 1
        if o.decl.is_list:
            if o.pristine:
                o.values = []
            o.values.append(val)
        else:
            o.values = [val]
        o.pristine = False
        o.modified = True
        return 1
    if t == 'setcomment':
        _, path, text = op
        o = _opt(store, path)
        if o is None:
            return FAIL
        o.comment = text
        o.modified = True
        return OK
    if t == 'addtsec':
        _, path, title = op
        r = resolve(store, path)
        if r is None:
            return 0
        sec, o = r[0], r[1]
        if o.decl.kind != 'sec':
            return 0
        if not (o.decl.has('M') and o.decl.has('T')):
            return None
        if any(teq(sec, s.title, title) for s in o.values):
            return 0
        o.values.append(SecState(o.decl.sub, sec.nocase, sec.keystrval or o.decl.has('K'), title))
        o.modified = UNKNOWN if o.modified is not True else True
        return 1
    if t in ('rmnsec', 'rmtsec'):
        _, path, key = op
        o = _opt(store, path)
        if o is None or o.decl.kind != 'sec':
            return FAIL
        if not o.decl.has('M'):
            return None
        if t == 'rmtsec':
            if not o.decl.has('T'):
                return FAIL
            idx = None
            for j, s in enumerate(o.values):
                if teq(store, s.title, key):
                    idx = j
                    break
            if idx is None:
                return FAIL
        else:
            idx = key
            if idx >= len(o.values):
                return FAIL
        del o.values[idx]
        return OK
    if t == 'rmsec':
        _, path = op
        r = resolve(store, path)
        if r is None or len(r) != 3:
            return FAIL
        sec, o, sub = r
        if not o.decl.has('M'):
            return None
        o.values.remove(sub)
        return OK
    raise ValueError(op)


_KOPS = {'int': 'setint', 'float': 'setfloat', 'bool': 'setbool', 'str': 'setstr'}


def fmtval(kind, v):
    if kind == 'int':
        return '%d' % v
    if kind == 'float':
        return repr(float(v))
    if kind == 'bool':
        return '1' if v else '0'
    return enc(v)


def optref(ctx, path):
    """driver reference of an option given by a '|' path with name=index qualifiers only"""
    parts = []
    steps = path.split(b'|')
    for k, step in enumerate(steps):
        name, _, qual = step.partition(b'=')
        n = enc(name)[1:]
        if k == len(steps) - 1:
            parts.append(n)
        else:
            parts.append('%s.%s' % (n, qual.decode() if qual else '0'))
    return ctx + '/' + '/'.join(parts)


def driver_line(op, ctx='A'):
    """the driver operation for a model operation, and the line its answer starts with"""
    t = op[0]
    if t == 'set':
        _, kind, path, value, index = op
        l = '%s %s %s %s' % (_KOPS[kind], ctx, enc(path), fmtval(kind, value))
        if index is not None:
            l += ' %d' % index
        return l, 'r ' + _KOPS[kind]
    if t == 'setoptfrom':
        _, path, sidx = op
        return 'setopt_from %s %d' % (optref(ctx, path), sidx), 'r setopt_from'
    if t == 'setlistfrom':
        _, path, idxs = op
        return 'setlist_from %s %s %d %s' % (ctx, enc(path), len(idxs), ' '.join('%d' % k for k in idxs)), 'r setlist_from'
    if t == 'setfrom':
        _, path, index, src, sidx = op
        return 'setstr_from %s %s %d %s %d' % (ctx, enc(path), index, enc(src), sidx), 'r setstr_from'
    if t == 'oset':
        _, kind, path, value, index = op
        return 'o%s %s %s %d' % (_KOPS[kind], optref(ctx, path), fmtval(kind, value), index), 'r o' + _KOPS[kind]
    if t in ('setlist', 'addlist'):
        _, path, kind, values = op
        return '%s %s %s %s %d %s' % (t, ctx, enc(path), kind, len(values), ' '.join(fmtval(kind, v) for v in values)), 'r ' + t
    if t == 'setmulti':
        _, path, texts = op
        return 'setmulti %s %s %d %s' % (ctx, enc(path), len(texts), ' '.join(enc(x) for x in texts)), 'r setmulti'
    if t == 'setopt':
        _, path, text = op
        return 'setopt %s %s' % (optref(ctx, path), enc(text)), 'r setopt'
    if t == 'setcomment':
        return 'setcomment %s %s %s' % (ctx, enc(op[1]), enc(op[2])), 'r setcomment'
    if t == 'addtsec':
        return 'addtsec %s %s %s' % (ctx, enc(op[1]), enc(op[2])), 'r addtsec'
    if t == 'rmnsec':
        return 'rmnsec %s %s %d' % (ctx, enc(op[1]), op[2]), 'r rmnsec'
    if t == 'rmtsec':
        return 'rmtsec %s %s %s' % (ctx, enc(op[1]), enc(op[2])), 'r rmtsec'
    if t == 'rmsec':
        return 'rmsec %s %s' % (ctx, enc(op[1])), 'r rmsec'
    raise ValueError(op)
