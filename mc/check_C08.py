#!/usr/bin/env python3
"""C08 - a parse depends only on its own input, not on earlier parses.

Explicit-state BFS over the process: events = accepted parse, each kind of aborted parse (syntax
error, text ending inside "..." / '...' / a comment, bad escape, range failure, failure inside an
included file at depth 1 / 2, include depth exhausted, missing / directory include target), each
through cfg_parse_buf or cfg_parse, context free + re-init, switch between two live contexts.
Every (history, probe) pair runs in a fresh process.  Invariant in every state: probes into a fresh
context give exactly the result they give in a fresh process; probes into the live contexts give the
result of the same history with the aborted events removed; the scanner globals are pristine.
"""
import sys, os, time, itertools
sys.path.insert(0, os.path.dirname(os.path.abspath(__file__)))
import engine
from engine import Case, enc, ShardStats, get_driver
from model import Opt, Schema, dump_sec
import reftext

PID = 'C08'
E8 = Schema('E8', [Opt('int', 'i', '', 5), Opt('str', 's', '', b'd'), Opt('int', 'l', 'L', [b'1']), Opt('float', 'f', '', 1.5), Opt('int', 'old', 'D', 1),
                   Opt('sec', 'm', 'M', sub=[Opt('int', 'x', '', 1)]), Opt('func', 'include', '', None, 'i'),
                   Opt('sec', 'sec', '', sub=[Opt('int', 'x', '', 1)])])
CHAIN = 10

FILES = {
    'ok.conf': b'i = 7\n', 'syn.conf': b'i = =\n', 'dq.conf': b's = "abc', 'sq.conf': b"s = 'abc", 'cm.conf': b'/* abc',
    'bad1.conf': b'i = x\n', 'inc2.conf': b'include("bad1.conf")\n', 'incbad1.conf': b'include("bad1.conf")\n',
    'self.conf': b'include("self.conf")\n', 'dqinc.conf': b's = "abc',
    'sec.conf': b'sec { x = 2 }\n', 'secbad.conf': b'sec {\nx = bad }\n',
}
for k in range(1, CHAIN + 1):
    FILES['c%d.conf' % k] = (b'include("c%d.conf")\n' % (k + 1)) if k < CHAIN else b'i = 10\n'

# event -> (kind, payload); 'buf' = cfg_parse_buf text, 'file' = cfg_parse name
EVENTS = {
    'ok': ('buf', b'i = 7'), 'okf': ('file', b'ok.conf'),
    'syn': ('buf', b'i = ='), 'synf': ('file', b'syn.conf'),
    'dq': ('buf', b's = "abc'), 'dqf': ('file', b'dq.conf'), 'dq0': ('buf', b'"abc'),
    'sq': ('buf', b"s = 'abc"), 'sqf': ('file', b'sq.conf'),
    'cm': ('buf', b'/* abc'), 'cmf': ('file', b'cm.conf'),
    'esc': ('buf', b's = "\\9"'), 'range': ('buf', b'i = 99999999999999999999'), 'frange': ('buf', b'f = 1e99999'),
    'dql': ('buf', b'l = {"abc'), 'cml': ('buf', b'l = /* abc'),      # aborted between the '=' of a LIST option and its first value
    'depdq': ('buf', b'old = 1 s = "abc'),      # mentions a deprecated option (stores the value it has anyway), then aborts inside a string
    'inc1': ('buf', b'include("bad1.conf")'), 'inc1f': ('file', b'incbad1.conf'),
    'inc2': ('buf', b'include("inc2.conf")'), 'incdq': ('buf', b'include("dqinc.conf")'),
    'incself': ('buf', b'include("self.conf")'), 'incmiss': ('buf', b'include("nope.conf")'), 'incdir': ('buf', b'include("d")'),
    'okfp': ('fp', b'i = 6'), 'synfp': ('fp', b'i = ='),
    'fperr': ('fperr', b'\nbogus'),        # a stream whose read fails right after the last token, which is itself an error
    'oksecf': ('file', b'sec.conf'), 'incsecbad': ('buf', b'include("secbad.conf")'),     # a single section entered from a named source
    'reinit': ('reinit', None), 'switch': ('switch', None),
}
KEEP = ('ok', 'okf', 'okfp', 'oksecf', 'reinit', 'switch')     # events with a lasting, specified effect on the stores
ORDER = ['ok', 'okf', 'syn', 'synf', 'dq', 'dqf', 'dq0', 'sq', 'sqf', 'cm', 'cmf', 'esc', 'range', 'frange', 'dql', 'cml', 'depdq', 'inc1', 'inc1f', 'inc2', 'incdq',
         'incself', 'incmiss', 'incdir', 'oksecf', 'incsecbad', 'okfp', 'synfp', 'fperr', 'reinit', 'switch']

PROBES = {
    'P1-plain': b'i = 8 l += {2} m { x = 3 }',
    'P2-quoted-commented': b's = "q\\"x" # c\n i = 9 /* z */ l = {4}',
    'P3-include-full-depth': b'include("c1.conf")',
    'P4-error-with-diagnostics': b'i = 7\ns = {',
    'P5-error-inside-a-single-section': b'sec {\nx = bad }',
    'P6-error-in-a-stream': b'\nf = 2.5\ns = {',     # (its first conversion is a float: the first live probe, so nothing has cleared errno since the history)          # parsed with cfg_parse_fp: its diagnostics name the stream, not an earlier source
    'P7-float-first': b'f = 2.5 i = 3 l = {077}',          # conversions in an order that does not start with an integer
    # refused at the very first token, for every kind of token: the diagnostic quotes that token and nothing an earlier scan left behind
    'P8-first-token-append': b'+= 3', 'P9-first-token-equals': b'= 3', 'P10-first-token-brace': b'{ i = 1 }', 'P11-first-token-paren': b') (',
    'P12-first-token-comma': b', i', 'P13-first-token-closing': b'} i = 2',
    # parsed into a context with annotation support (the dump shows annotations): comments that end in blanks, of the lengths at
    # which scratch buffers are usually recycled
    'P14-annotations': b'# note  \ni = 4\n/* rotate keys each week  */\ns = "v"\n# sixteen chars..  \nl = {5}',
}


def fixture_lines():
    out = ['mkdir ' + enc('d')]
    for n, c in FILES.items():
        out.append('mkfile %s %s' % (enc(n), enc(c)))
    return out


def history_lines(hist):
    """driver lines for a history; returns (lines, current context letter)"""
    cur = 'A'
    # fresh heap memory is pre-filled: with zeros in the reference runs (no history), with 0xBE after a history - a result that
    # depends on what an earlier parse left in recycled memory, or on memory nobody wrote, differs
    lines = ['fill %d' % (0xBE if hist else 0), 'errno -1', 'init A E8 0', 'init B E8 0']
    for ev in hist:
        kind, payload = EVENTS[ev]
        if kind == 'buf':
            lines.append('parse_buf %s %s' % (cur, enc(payload)))
        elif kind == 'file':
            lines.append('parse %s %s' % (cur, enc(payload)))
        elif kind == 'fp':
            lines.append('parse_fp %s %s' % (cur, enc(payload)))
        elif kind == 'fperr':
            lines.append('parse_fperr %s %s' % (cur, enc(payload)))
        elif kind == 'reinit':
            lines.append('free %s' % cur)
            lines.append('init %s E8 0' % cur)
        elif kind == 'switch':
            cur = 'B' if cur == 'A' else 'A'
    return lines, cur


def reduce_history(hist):
    return tuple(e for e in hist if e in KEEP)


def key_case(hist):
    lines, cur = history_lines(hist)
    return Case(fixture_lines() + lines + ['note state', 'lexstate', 'dump A 7', 'dump B 7'], fork=True, horizon=20)


def fresh_probe_case(hist, pname):
    lines, cur = history_lines(hist)
    via = 'parse_fp' if pname.startswith('P6') else 'parse_buf'
    cflags, cmode = (2048, 4) if pname.startswith('P14') else (0, 0)
    return Case(fixture_lines() + lines + ['note probe', 'init C E8 %d' % cflags, '%s C %s' % (via, enc(PROBES[pname])), 'dump C %d' % cmode, 'dump A 0', 'dump B 0',
                                           'lexstate'], fork=True, horizon=20)


def live_probe_case(hist):
    lines, cur = history_lines(hist)
    other = 'B' if cur == 'A' else 'A'
    return Case(fixture_lines() + lines + ['note probe', 'parse_fp %s %s' % (cur, enc(PROBES['P6-error-in-a-stream'])),     # a stream right after whatever the history ended with
                                           'parse_buf %s %s' % (cur, enc(PROBES['P1-plain'])), 'dump %s 0' % cur, 'dump %s 0' % other,       # appends to the list before anything assigns it
                                           'parse_buf %s %s' % (cur, enc(PROBES['P7-float-first'])), 'dump %s 0' % cur,
                                           'parse_buf %s %s' % (cur, enc(b'old = 1 i = 8')), 'parse_buf %s %s' % (other, enc(b'old = 1')), 'dump %s 0' % cur,   # the notice about a deprecated option: every time
                                           'parse_buf %s %s' % (other, enc(PROBES['P4-error-with-diagnostics'])), 'dump %s 0' % other,
                                           'parse_buf %s %s' % (cur, enc(PROBES['P3-include-full-depth'])), 'dump %s 0' % cur,
                                           'parse_buf %s %s' % (cur, enc(PROBES['P5-error-inside-a-single-section'])),
                                           'parse_fp %s %s' % (cur, enc(PROBES['P6-error-in-a-stream']))], fork=True, horizon=20)


def live2_case(hist):
    """a second, short sequence into the live context: a BUFFER whose first conversion is a float comes first (a stream probe goes
    through libc calls that overwrite errno on their way)"""
    lines, cur = history_lines(hist)
    return Case(fixture_lines() + lines + ['note probe', 'parse_buf %s %s' % (cur, enc(b'f = 3.5 i = 4')), 'dump %s 0' % cur], fork=True, horizon=20)


def after_note(res, note):
    """observation lines after the 'note' marker: the driver echoes nothing for notes, so cut by count"""
    return res.lines


def probe_part(res, nhist_lines):
    return res.lines


def tail_after(res, marker_count):
    return res.lines[marker_count:]


def observations(res, hist):
    """lines produced after the history part = everything after the answers to the history's ops"""
    # each history op produces a known number of 'r ' lines (+ diag lines); find the cut by counting 'r ' answers
    want = 2   # two init answers
    for ev in hist:
        k = EVENTS[ev][0]
        want += {'buf': 1, 'file': 1, 'fp': 1, 'fperr': 1, 'reinit': 2, 'switch': 0}[k]
    seen = 0
    for idx, l in enumerate(res.lines):
        if l.startswith('r '):
            seen += 1
            if seen == want:
                return res.lines[idx + 1:]
    return None


def shard(sh):
    items, refs, deadline = sh
    drv = get_driver('asan')
    drv.define_schema('E8', E8.spec())
    root = engine.worker_root() + '-c08'
    if drv.rootdir != root:
        drv.set_root(root)
    st = ShardStats('history BFS')
    new_states = []
    for hist in items:
        if time.time() > deadline:
            st.complete = False
            break
        cases = [('key', key_case(hist))]
        for pn in PROBES:
            cases.append((pn, fresh_probe_case(hist, pn)))
        cases.append(('live', live_probe_case(hist)))
        cases.append(('live2', live2_case(hist)))
        red = reduce_history(hist)
        need_ref = red != tuple(hist) and red not in refs
        if need_ref:
            cases.append(('ref-live', live_probe_case(red)))
        if red != tuple(hist):
            cases.append(('ref-live2', live2_case(red)))
        results = drv.run([c for _, c in cases])
        obs = {}
        bad = False
        for (name, c), r in zip(cases, results):
            st.evaluations += 1
            st.transitions += 1
            script = 'schema E8 %s\nroot %s\n%s' % (E8.spec(), enc(root), c.script())
            if r.status in ('crash', 'hang'):
                st.violation('%s:%s' % (r.status, engine.sanitizer_summary(r.info)), script, 'history + probe run to completion', engine.excerpt(r.info))
                bad = True
                continue
            o = observations(r, red if name in ('ref-live', 'ref-live2') else hist)
            if o is None:
                st.violation('protocol', script, '', r.text()[-400:])
                bad = True
                continue
            obs[name] = [l for l in o if not l.startswith('hyg ') and not l.startswith('leak ')]
            obs[name + '#script'] = script
        if bad:
            continue
        st.validated += len(cases)
        # 1. the scanner globals are pristine in every state
        lex = [l for l in obs['key'] if l.startswith('lex ')]
        if not lex or 'start=0 ' not in lex[0].replace('start=1 ', 'start=0 ') or ' buf=0 ' not in lex[0] or ' inc=0 ' not in lex[0] or ' q=0 ' not in lex[0]:
            st.violation('scanner-state-left-behind:%s' % hist[-1], obs['key#script'], 'start=INITIAL buf=0 inc=0 q=0', lex[0] if lex else 'none')
        # 2. probes into a fresh context equal their fresh-process result
        for pn in PROBES:
            exp = refs[('fresh', pn)]
            got = [l for l in obs[pn] if not l.startswith('dump ') or True]
            # the first three lines (init, parse result incl. diags, dump C) are the probe's own outcome
            cut = [l for l in obs[pn]]
            k = next((i for i, l in enumerate(cut) if l.startswith('dump ')), None)
            mine = cut[:k + 1] if k is not None else cut
            if mine != exp:
                st.violation('probe-differs:%s after %s' % (pn, hist[-1]), obs[pn + '#script'], '\n'.join(exp), '\n'.join(mine))
            st.outcome('\n'.join(mine))
        # 3. probes into the live contexts equal the run without the aborted events
        ref = refs.get(red)
        if ref is None:
            ref = obs.get('ref-live') if need_ref else obs['live']
        if obs['live'] != ref:
            st.violation('live-context-differs after %s' % hist[-1], obs['live#script'], '\n'.join(ref), '\n'.join(obs['live']))
        else:
            # the diagnostics of the last live probe (an error inside a single section) do not depend on the context's past at all:
            # they are those of the fresh process, file name and line included
            kd = max(i for i, l in enumerate(obs['live']) if l.startswith('dump '))
            tail = obs['live'][kd + 1:]
            want = refs[('fresh', 'P5-error-inside-a-single-section')][1:-1] + refs[('fresh', 'P6-error-in-a-stream')][1:-1]
            kf = next(i for i, l in enumerate(obs['live']) if l.startswith('r parse_fp'))
            head = obs['live'][:kf + 1]
            if tail != want:
                st.violation('live-diagnostics-depend-on-history after %s' % hist[-1], obs['live#script'], '\n'.join(want), '\n'.join(tail))
            elif head != refs[('fresh', 'P6-error-in-a-stream')][1:-1]:
                # the very first probe, a stream, right after the history: name and line as in a fresh process
                st.violation('live-diagnostics-depend-on-history:first-probe after %s' % hist[-1], obs['live#script'],
                             '\n'.join(refs[('fresh', 'P6-error-in-a-stream')][1:-1]), '\n'.join(head))
        if 'ref-live2' in obs and obs['live2'] != obs['ref-live2']:
            st.violation('live-context-differs:float-first after %s' % hist[-1], obs['live2#script'], '\n'.join(obs['ref-live2']), '\n'.join(obs['live2']))
        st.outcome('\n'.join(obs['live']))
        key = '\n'.join(obs['key'])
        st.nontriv(key)
        new_states.append((hash(key) & 0xFFFFFFFFFFFFFFF, list(hist)))
        if len(st.samples) < 1 and len(hist) >= 2:
            st.samples.append({'history': list(hist), 'probes': list(PROBES), 'state_key': obs['key']})
    res = st.result([drv])
    res['new_states'] = new_states
    return res


def reference_runs():
    """fresh-process results of the probes (no history) and of the store-relevant histories"""
    d = engine.Driver('asan', wid=777000 + os.getpid() % 1000)
    root = os.path.join(engine.BUILD, 'fx', 'c08-ref-%d' % os.getpid())
    d.define_schema('E8', E8.spec())
    d.set_root(root)
    refs = {}
    try:
        for pn in PROBES:
            c = fresh_probe_case((), pn)
            r = d.run([c])[0]
            o = observations(r, ()) if r.status not in ('crash', 'hang') else None
            k = next((i for i, l in enumerate(o) if l.startswith('dump ')), None) if o is not None else None
            if k is None:
                # the probe does not even run to completion in a fresh process: a violation by itself (memory error, exit)
                refs.setdefault('broken', []).append(('schema E8 %s\nroot %s\n%s' % (E8.spec(), enc(root), c.script()), pn,
                                                     engine.sanitizer_summary(r.info) if r.status in ('crash', 'hang') else 'no result', engine.excerpt(r.info)))
                refs[('fresh', pn)] = ['<no result>']
                continue
            refs[('fresh', pn)] = o[:k + 1]
        r = d.run([live_probe_case(())])[0]
        refs[()] = [l for l in observations(r, ()) if not l.startswith('hyg ') and not l.startswith('leak ')]
    finally:
        d.close()
    return refs


def main():
    ck = engine.Check(PID)
    if ck.replay:
        engine.replay_file(ck.replay)
        return
    engine.build(['asan'])
    quick = ck.tier == 'quick'
    depth = 3 if quick else 6
    refs = reference_runs()
    for script, pn, what, info in refs.pop('broken', []):
        ck.add_violation('probe-fails-in-a-fresh-process:%s:%s' % (pn, what), script, 'the probe runs to completion', info)
    # sanity of the references against the reference model (machinery self-check)
    m = reftext.meaning(E8, 0, PROBES['P1-plain'])
    exp = 'dump ' + dump_sec(m.store, 0)
    if refs[('fresh', 'P1-plain')][-1] != exp or refs[('fresh', 'P3-include-full-depth')][-2] != 'r parse_buf 0':
        ck.add_violation('fresh-process-probe-wrong', 'schema E8 %s\n%s' % (E8.spec(), fresh_probe_case((), 'P1-plain').script()), exp,
                         '\n'.join(refs[('fresh', 'P1-plain')]) + '\n' + '\n'.join(refs[('fresh', 'P3-include-full-depth')]))
    seen = set()
    frontier = [()]
    for d in range(1, depth + 1):
        if ck.expired():
            ck.cov['exhaustive'] = False
            ck.cov['bounds'].append({'phase': 'history depth %d' % d, 'completed': False, 'reason': 'deadline reached before this level was started'})
            break
        items = [tuple(h) + (e,) for h in frontier for e in ORDER]
        shards = [(list(ch), refs, ck.deadline) for ch in engine.chunks(items, max(1, len(items) // 64 + 1))]
        nxt = []
        info = {'n': 0, 'complete': True}

        def on(r):
            ck.merge(r)
            info['n'] += r['evaluations']
            info['complete'] = info['complete'] and r['complete']
            for key, hist in r['new_states']:
                if key not in seen:
                    seen.add(key)
                    nxt.append(tuple(hist))
        t = time.time()
        engine.run_shards(shard, shards, on_result=on)
        ck.cov['bounds'].append({'phase': 'history depth %d' % d, 'frontier': len(frontier), 'events': len(ORDER), 'executions': info['n'],
                                 'new_states': len(nxt), 'completed': info['complete'], 'wall_s': round(time.time() - t, 1)})
        if not info['complete']:
            ck.cov['exhaustive'] = False
            break
        frontier = sorted(nxt)
        if not frontier:
            ck.cov['bounds'].append({'phase': 'closed', 'note': 'no new canonical state at depth %d: the reachable state space is exhausted' % d})
            break
    ck.cov['states'] = len(seen)
    ck.assumptions = ['aborted events are chosen so that they store nothing before they fail; the reference for probes into live contexts is the '
                      'same history with the aborted events removed, run in a fresh process', 'every (history, probe) pair runs in its own forked process',
                      'canonical state = scanner globals + dumps of both live contexts']
    ck.finish('breadth-first search over %d event kinds; one execution = history replayed in a fresh process + state key or one probe; '
              'non-trivial = distinct canonical states' % len(ORDER))


if __name__ == '__main__':
    main()
