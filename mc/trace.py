"""trace.py - E1/E2 enumerations over token sequences (DESIGN.md section 5, C01).

E1: viable-prefix DFS - every token sequence of length <= N all of whose proper
    prefixes the reference model has not rejected.  Every node is a complete text.
E2: full product of length <= L, no pruning.
"""
import itertools
from model import (RefParser, new_store, tokens_from_words, ACCEPT, REJECT, INCOMPLETE, UNSPEC, dump_sec)


class Node:
    __slots__ = ('words', 'verdict', 'res', 'store')


def evaluate(schema, ctxflags, words, cb_fail=0, store=None):
    st = store if store is not None else new_store(schema, ctxflags)
    p = RefParser(ctxflags, cb_fail=cb_fail)
    res = p.parse(st, tokens_from_words(words))
    n = Node()
    n.words = words
    n.verdict = res.verdict
    n.res = res
    n.store = st
    return n


def e1(schema, ctxflags, alphabet, N, prefix=()):
    """yields Node for the prefix itself and everything viable below it"""
    stack = [list(prefix)]
    # iterative DFS in canonical (alphabet) order
    def rec(words):
        node = evaluate(schema, ctxflags, words)
        yield node
        if len(words) < N and node.verdict in (ACCEPT, INCOMPLETE):
            for w in alphabet:
                yield from rec(words + [w])
    yield from rec(list(prefix))


def viable_prefixes(schema, ctxflags, alphabet, depth):
    """all viable token sequences of exactly `depth` tokens plus the dead/complete ones shorter
    than that - used to cut the DFS into shards: returns (inner, frontier) where inner nodes are
    to be executed by the coordinator-side shard 'short' and frontier prefixes root sub-DFSes."""
    inner, frontier = [], []

    def rec(words):
        if len(words) == depth:
            frontier.append(tuple(words))
            return
        inner.append(tuple(words))
        node = evaluate(schema, ctxflags, words)
        if node.verdict in (ACCEPT, INCOMPLETE):
            for w in alphabet:
                rec(words + [w])
    rec([])
    return inner, frontier


def e2(alphabet, L, prefix=()):
    for n in range(len(prefix), L + 1):
        for tail in itertools.product(alphabet, repeat=n - len(prefix)):
            yield list(prefix) + list(tail)


def text_of(words):
    return ' '.join(words)
