#!/usr/bin/env python3
"""C19 - print emits each unfiltered option once, in order, at its depth.

Schemas of depth 3 with all printable kinds, unset scalars, function / pointer options; states default /
parsed (0-2 instances); at each nesting level no filter or one of three name-set filters; every subset of
<= 4 options carrying a print callback; cfg_print, cfg_print_indent, cfg_opt_print.
Oracle (refprint): the expected entry sequence (depth, name, kind, instance, values) under effective
filter inheritance; output lines are reduced to (indent units, name, shape, values); unset scalars are
comment lines; a callback's marker replaces the built-in value exactly where registered; every section
body is byte-equal to cfg_print_indent of that instance one level deeper under the effective filter."""
import sys, os, time, itertools, re
sys.path.insert(0, os.path.dirname(os.path.abspath(__file__)))
import engine
from engine import Case, enc, dec, ShardStats, get_driver
from model import Opt, Schema, ACCEPT
import reftext

PID = 'C19'
PF_SLOTS = ['i', 'l', 'x', 'z', 'fn', 'p']
# every filter hides a leaf of the innermost level, so that inheritance across two levels is observable;
# filter 3 also hides a section (its whole subtree must disappear)
FILTERS = {1: [b'x', b'z'], 2: [b'l', b's', b'n', b'z'], 3: [b'i', b'm', b'l']}
STATES = [b'', b'sub { m { } m { z = 4 l = {7} } x = 9 } mt a { dx = 2 } mt b { x = 2 sub { z = 5 } } n = 3 sn = "set" dx = 3 dxl = {4} dep = 7',
          b'l = {} mt a { } sub { m { } } e0 u { } e0 v { }', b'p = pv l = {3} fn(a)']


def schema(pfset):
    r = lambda n: 'r' if n in pfset else ''
    return Schema('P%s' % ''.join(str(PF_SLOTS.index(n)) for n in sorted(pfset, key=PF_SLOTS.index)), [
        Opt('int', 'i', '', 5, r('i')), Opt('int', 'n', 'N'), Opt('str', 's', '', b'd'), Opt('str', 'sn', ''), Opt('int', 'l', 'L', [b'1', b'2'], r('l')),
        Opt('float', 'f', '', 1.5), Opt('bool', 'b', '', True), Opt('func', 'fn', '', None, 'u' + r('fn')), Opt('ptr', 'p', '', None, 'pf' + r('p')),
        Opt('sec', 'sub', '', sub=[Opt('int', 'x', '', 1, r('x')), Opt('str', 's', '', b'q'),
                                   Opt('sec', 'm', 'M', sub=[Opt('int', 'z', '', 3, r('z')), Opt('int', 'l', 'L')]), Opt('int', 'n', 'N')]),
        Opt('sec', 'mt', 'MT', sub=[Opt('int', 'x', '', 1, r('x')), Opt('sec', 'sub', '', sub=[Opt('int', 'z', '', 2, r('z'))]), Opt('int', 'dx', 'DX', 5)]),
        Opt('int', 'dx', 'DX', 5), Opt('int', 'dxl', 'LDX', [b'1']), Opt('int', 'dep', 'D', 6),
        # sections that declare no option at all: each instance is still an instance and is written once (header and empty body)
        Opt('sec', 'e1', '', sub=[]), Opt('sec', 'e0', 'MT', sub=[])])      # deprecated options, some dropped when the text names them: options like any other to print


# ---- refprint
PF_EXTRA = set()       # ids of option states that got a print callback through the API (by path) in the case at hand


class _D:
    """a declaration seen with a print callback added"""
    def __init__(self, d):
        self.__dict__.update(d.__dict__)
        self.cbs = d.cbs + 'r'

    def has(self, f):
        return f in self.flags

    @property
    def is_list(self):
        return 'L' in self.flags


def entries(sec, eff, depth, filters_of):
    """expected entries of printing section `sec` (a SecState) with effective filter `eff` (set of hidden names or None)"""
    out = []
    for o in sec.opts:
        d = o.decl
        if id(o) in PF_EXTRA and 'r' not in d.cbs:
            d = _D(d)
        if eff is not None and d.name in eff:
            continue
        if d.kind == 'sec':
            for k, inst in enumerate(o.values):
                out.append((depth, 'open', d.name, inst.title))
                own = filters_of(inst)
                out += entries(inst, own if own is not None else eff, depth + 1, filters_of)
                out.append((depth, 'close', b'', None))
        elif d.kind == 'func':
            if 'r' in d.cbs:
                out.append((depth, 'pf', d.name, ['<PF:%s:0>' % d.name.decode()]))
        elif d.is_list:
            if 'r' in d.cbs:
                vals = ['<PF:%s:%d>' % (d.name.decode(), k) for k in range(len(o.values))]
            else:
                vals = [fmt(d, v) for v in o.values]
            out.append((depth, 'list', d.name, vals))
        else:
            unset = len(o.values) == 0 or (d.kind == 'str' and o.values[0] is None)
            if 'r' in d.cbs:
                vals = ['<PF:%s:0>' % d.name.decode()]
            elif unset:
                vals = None
            else:
                vals = [fmt(d, o.values[0])]
            out.append((depth, 'unset' if unset else 'scalar', d.name, vals))
    return out


def fmt(d, v):
    if d.kind in ('int',):
        return '%d' % v
    if d.kind == 'bool':
        return 'true' if v else 'false'
    if d.kind == 'str':
        return '"%s"' % v.decode('latin-1')
    if d.kind == 'float':
        return 'F'
    if d.kind == 'ptr':
        return ''
    return '?'


NAME = rb'[A-Za-z0-9_]+'


def reduce_output(text):
    """-> list of (indent level, shape, name, values) or (None, offending line).  Spacing is not part of the property: the
    indentation unit is whatever the output uses (the smallest non-empty indentation, every other one a multiple of it), blanks
    around '=' and inside braces are ignored."""
    lines = [l for l in text.split(b'\n') if l.strip() != b'']
    indents = []
    for raw in lines:
        body = raw.lstrip(b' \t')
        indents.append(raw[:len(raw) - len(body)])
    import math
    base = min((len(i) for i in indents), default=0)
    unit = 0
    for i in indents:
        unit = math.gcd(unit, len(i) - base)
    unit = unit or 1
    out = []
    for raw, ind_s in zip(lines, indents):
        ind = (len(ind_s) - base) // unit      # level relative to the least indented line of this output
        rest = raw[len(ind_s):].rstrip(b' \t')
        if rest == b'}':
            out.append((ind, 'close', b'', None))
            continue
        mm = re.match(rb'^(' + NAME + rb')(?:\s+"((?:[^"\\]|\\.)*)")?\s*\{$', rest)
        if mm:
            out.append((ind, 'open', mm.group(1), mm.group(2)))
            continue
        mm = re.match(rb'^(' + NAME + rb')\s*=\s*\{(.*)\}$', rest)
        if mm:
            body = mm.group(2).decode('latin-1')
            vals = [v.strip() for v in body.split(',')] if body.strip() else []
            out.append((ind, 'list', mm.group(1), vals))
            continue
        mm = re.match(rb'^#\s*(' + NAME + rb')\s*=\s*(.*)$', rest)
        if mm:
            out.append((ind, 'unset', mm.group(1), mm.group(2).decode('latin-1')))
            continue
        mm = re.match(rb'^(' + NAME + rb')\s*=\s*(.*)$', rest)
        if mm:
            out.append((ind, 'scalar', mm.group(1), [mm.group(2).decode('latin-1')]))
            continue
        mm = re.match(rb'^(<PF:(' + NAME + rb'):\d+>)$', rest)
        if mm:
            out.append((ind, 'pf', mm.group(2), [mm.group(1).decode()]))
            continue
        return None, raw
    return out, None


def indent_unit_len(text):
    import math
    u = 0
    for l in text.split(b'\n'):
        if l.strip():
            u = math.gcd(u, len(l) - len(l.lstrip(b' \t')))
    return u


def rel(entries_list):
    """depths relative to the least deep entry (the reducer measures indentation the same way)"""
    if not entries_list:
        return entries_list
    m = min(e[0] for e in entries_list)
    return [(e[0] - m,) + tuple(e[1:]) for e in entries_list]


def same(exp, got):
    """compare an expected entry with a reduced output line"""
    if exp[0] != got[0] or exp[1] != got[1] or exp[2] != got[2]:
        return False
    if exp[1] == 'open':
        return exp[3] == got[3]
    if exp[1] == 'close':
        return True
    if exp[1] == 'unset':
        if exp[3] is None:
            return True          # what follows '# name=' for an unset option is formatting
        return got[3] == exp[3][0]
    ev, gv = exp[3], got[3]
    if len(ev) != len(gv):
        return False
    for a, b in zip(ev, gv):
        if a == 'F':
            try:
                float(b)
            except ValueError:
                return False
        elif a != b:
            return False
    return True


def shard(sh):
    pfsets, deadline = sh
    drv = get_driver('asan')
    st = ShardStats('print structure')
    for pfset in pfsets:
        sch = schema(pfset)
        drv.define_schema(sch.sid, sch.spec())
        for stext in STATES:
            m = reftext.meaning(sch, 0, stext)
            assert m.verdict == ACCEPT, (stext, m.why)
            store = m.store
            sub0 = store.find(b'sub').values[0]
            mt = store.find(b'mt').values
            lvl1 = [('A/sub.0', sub0)] + ([('A/mt.0', mt[0])] if mt else [])
            lvl2 = [('A/sub.0/m.0', sub0.find(b'm').values[0])] if sub0.find(b'm').values else []
            if mt:
                lvl2.append(('A/mt.0/sub.0', mt[0].find(b'sub').values[0]))
            cases, metas = [], []
            for f0, f1, f2 in itertools.product(range(4), repeat=3):
                own = {}
                lines = ['init A %s 0' % sch.sid, 'cb_quiet 1', 'parse_buf A ' + enc(stext)]
                for k, names in FILTERS.items():
                    lines.append('pffnames %d %s' % (k, ' '.join(enc(n) for n in names)))
                if f0:
                    lines.append('set_pff A %d' % f0)
                    own[id(store)] = set(FILTERS[f0])
                for ref, inst in lvl1:
                    if f1:
                        lines.append('set_pff %s %d' % (ref, f1))
                        own[id(inst)] = set(FILTERS[f1])
                for ref, inst in lvl2:
                    if f2:
                        lines.append('set_pff %s %d' % (ref, f2))
                        own[id(inst)] = set(FILTERS[f2])
                filters_of = lambda s, own=own: own.get(id(s))
                lines.append('note whole print')
                lines.append('print A')
                lines.append('print A 2')
                # per option print (no filter at the top, nested sections keep their own)
                lines.append('oprint A/sub')
                lines.append('oprint A/l 1')
                # section bodies: print_indent of each instance one level deeper under the effective filter
                eff0 = own.get(id(store))
                bodies = []
                for ref, inst in lvl1:
                    eff = own.get(id(inst), eff0)
                    bodies.append((ref, inst, eff, 1))
                for ref, inst in lvl2:
                    parent = lvl1[0][1] if ref.startswith('A/sub.0') else lvl1[-1][1]
                    effp = own.get(id(parent), eff0)
                    eff = own.get(id(inst), effp)
                    bodies.append((ref, inst, eff, 2))
                for ref, inst, eff, dep in bodies:
                    if id(inst) not in own and eff is not None:
                        fk = [k for k, names in FILTERS.items() if set(names) == eff][0]
                        lines.append('set_pff %s %d' % (ref, fk))
                    lines.append('print %s %d' % (ref, dep))
                cases.append(Case(lines))
                metas.append((f0, f1, f2, filters_of, bodies, eff0))
            results = drv.run(cases)
            for c, r, (f0, f1, f2, filters_of, bodies, eff0) in zip(cases, results, metas):
                st.evaluations += 1
                st.transitions += 1
                st.validated += 1
                script = 'schema %s %s\n%s' % (sch.sid, sch.spec(), c.script())
                label = 'filters=%d%d%d' % (f0, f1, f2)
                if r.status in ('crash', 'hang'):
                    st.violation('%s:%s' % (r.status, engine.sanitizer_summary(r.info)), script, '', engine.excerpt(r.info))
                    continue
                outs = r.all('out ')
                if len(outs) != 4 + len(bodies):
                    st.violation('protocol', script, '%d prints' % (4 + len(bodies)), r.text()[-300:])
                    continue
                texts = [dec(o.split(' ')[2]) for o in outs]
                st.outcome(outs[0])
                st.nontriv(outs[0])
                # 1. the whole print
                exp = rel(entries(store, eff0, 0, filters_of))
                got, badline = reduce_output(texts[0])
                if got is None:
                    st.violation('unrecognised-line', script, 'a line of one of the known shapes', repr(badline))
                    continue
                ok = len(exp) == len(got) and all(same(e, g) for e, g in zip(exp, got))
                if not ok:
                    st.violation('print-structure', script, '\n'.join(map(str, exp)), '\n'.join(map(str, got)) + '\n--- raw:\n' + texts[0].decode('latin-1'))
                    continue
                # 2. cfg_print_indent(cfg, 2) = the same, two levels deeper
                got2, _ = reduce_output(texts[1])
                u = indent_unit_len(texts[0])
                first = texts[1].split(b'\n')[0] if texts[1] else b''
                base2 = len(first) - len(first.lstrip(b' \t'))
                if got2 is None or got2 != got or (u and texts[1] and base2 != 2 * u):
                    st.violation('print-indent-differs', script, 'cfg_print output shifted by 2 levels', texts[1].decode('latin-1'))
                    continue
                # 3. cfg_opt_print of the section option 'sub': no filter from above
                sub0 = store.find(b'sub')
                exp3 = []
                for inst in sub0.values:
                    exp3.append((0, 'open', b'sub', None))
                    exp3 += entries(inst, filters_of(inst), 1, filters_of)
                    exp3.append((0, 'close', b'', None))
                exp3 = rel(exp3)
                got3, _ = reduce_output(texts[2])
                if got3 is None or len(exp3) != len(got3) or not all(same(e, g) for e, g in zip(exp3, got3)):
                    st.violation('opt-print-structure', script, '\n'.join(map(str, exp3)), texts[2].decode('latin-1'))
                    continue
                # 4. every section body equals print_indent of the instance one level deeper
                whole_lines = texts[0].split(b'\n')
                for (ref, inst, eff, dep), t in zip(bodies, texts[4:]):
                    expb = rel(entries(inst, eff, dep, filters_of))
                    gotb, _ = reduce_output(t)
                    if gotb is None or len(expb) != len(gotb) or not all(same(e, g) for e, g in zip(expb, gotb)):
                        st.violation('section-print-structure', script, '\n'.join(map(str, expb)), t.decode('latin-1'))
                        break
                    # byte equality with the corresponding slice of the whole print, when the section was printed at all
                    if t and t not in texts[0]:
                        # the instance may be hidden by a filter above it; then it must not appear
                        hidden = False
                        e0 = eff0
                        first = ref.split('/')[1].split('.')[0].encode()
                        if e0 is not None and first in e0:
                            hidden = True
                        if ref.count('/') == 2:
                            parent = lvl1[0][1] if ref.startswith('A/sub.0') else lvl1[-1][1]
                            ep = filters_of(parent) if filters_of(parent) is not None else e0
                            second = ref.split('/')[2].split('.')[0].encode()
                            if ep is not None and second in ep:
                                hidden = True
                        if not hidden:
                            st.violation('section-body-not-byte-equal', script, t.decode('latin-1'), texts[0].decode('latin-1'))
                            break
            if time.time() > deadline:
                st.complete = False
                break
        if not st.complete:
            break
        if len(st.samples) < 1:
            st.samples.append({'print_callbacks_on': sorted(pfset), 'states': [s.decode('latin-1') for s in STATES], 'filter_combinations': 64})
    return st.result([drv])


# ---- indentation at every level
def shard_indent(sh):
    """cfg_print_indent(cfg, b) for every base level b up to a bound, and a chain of nested sections: every line of the output
    stands exactly b levels deeper than in cfg_print / every body one level deeper than its section, at whatever depth"""
    maxb, chain, deadline = sh
    drv = get_driver('asan')
    st = ShardStats('indentation levels')
    sch = schema(frozenset())
    drv.define_schema(sch.sid, sch.spec())
    for stext in STATES:
        lines = ['init A %s 0' % sch.sid, 'cb_quiet 1', 'parse_buf A ' + enc(stext), 'print A']
        for b in range(1, maxb + 1):
            lines.append('print A %d' % b)
        c = Case(lines)
        r = drv.run([c])[0]
        st.evaluations += 1
        st.transitions += maxb
        st.validated += 1
        script = 'schema %s %s\n%s' % (sch.sid, sch.spec(), c.script())
        if r.status in ('crash', 'hang'):
            st.violation('%s:%s' % (r.status, engine.sanitizer_summary(r.info)), script, '', engine.excerpt(r.info))
            continue
        texts = [dec(o.split(' ')[2]) for o in r.all('out ')]
        u = indent_unit_len(texts[0])
        base = [l for l in texts[0].split(b'\n')]
        for b, t in enumerate(texts[1:], 1):
            want = b'\n'.join((b' ' * (u * b) + l) if l.strip() else l for l in base)
            got = t.replace(b'\t', b' ' * 8) if b'\t' in t and b'\t' not in texts[0] else t
            st.outcome(str(b))
            if got != want:
                st.violation('print-indent-differs:level-%d' % b, script, want.decode('latin-1'), t.decode('latin-1'))
                break
        st.nontriv(stext)
    # a chain of nested sections
    inner = [Opt('int', 'z', '', 1)]
    for k in range(chain, 0, -1):
        inner = [Opt('int', 'v%d' % k, '', k), Opt('sec', 'c%d' % k, '', sub=inner)]
    deep = Schema('PDEEP%d' % chain, inner)
    drv.define_schema(deep.sid, deep.spec())
    c = Case(['init A %s 0' % deep.sid, 'print A', 'print A 3'])
    r = drv.run([c])[0]
    st.evaluations += 1
    st.transitions += chain
    st.validated += 1
    script = 'schema %s %s\n%s' % (deep.sid, deep.spec(), c.script())
    if r.status in ('crash', 'hang'):
        st.violation('%s:%s' % (r.status, engine.sanitizer_summary(r.info)), script, '', engine.excerpt(r.info))
    else:
        for t in [dec(o.split(' ')[2]) for o in r.all('out ')]:
            got, badline = reduce_output(t)
            exp = []
            for k in range(1, chain + 1):
                exp.append((k - 1, 'scalar', b'v%d' % k, ['%d' % k]))
                exp.append((k - 1, 'open', b'c%d' % k, None))
            exp.append((chain, 'scalar', b'z', ['1']))
            for k in range(chain, 0, -1):
                exp.append((k - 1, 'close', b'', None))
            if got is None or len(got) != len(exp) or not all(same(e, g) for e, g in zip(exp, got)):
                st.violation('print-structure:nesting-depth-%d' % chain, script, '\n'.join(map(str, exp)), t.decode('latin-1'))
                break
    st.samples.append({'base_levels': '1..%d' % maxb, 'nested_chain': chain})
    return st.result([drv])


# ---- print callbacks registered by path after the parse
def shard_bypath(sh):
    """cfg_set_print_func(cfg, "path", cb) for every value option of every section instance, addressed in every qualifier form:
    the callback formats exactly that option of exactly that instance (and goes away again when cleared)"""
    deadline = sh
    drv = get_driver('asan')
    st = ShardStats('print callbacks by path')
    sch = schema(frozenset())
    drv.define_schema(sch.sid, sch.spec())
    for stext in STATES2:
        m = reftext.meaning(sch, 0, stext)
        assert m.verdict == ACCEPT
        store = m.store
        targets = []        # (path, option state)

        def walk(sec, prefix):
            for o in sec.opts:
                d = o.decl
                if d.kind == 'sec':
                    for k, inst in enumerate(o.values):
                        forms = []
                        if d.has('T'):
                            forms.append(d.name + b'=' + inst.title)
                            forms.append(d.name + b"='" + inst.title + b"'")
                        elif d.has('M'):
                            forms.append(d.name + b'=%d' % k)
                        if k == 0:
                            forms.append(d.name)
                        for f in forms:
                            walk(inst, prefix + f + b'|')
                elif d.kind in ('int', 'str', 'float', 'bool'):
                    targets.append((prefix + d.name, o))
        walk(store, b'')
        for (path, o) in targets:
            if time.time() > deadline:
                st.complete = False
                break
            for clear in (False, True):
                lines = ['init A %s 0' % sch.sid, 'cb_quiet 1', 'parse_buf A ' + enc(stext), 'set_pf_name A %s 1' % enc(path)]
                if clear:
                    lines.append('set_pf_name A %s 0' % enc(path))
                lines.append('print A')
                c = Case(lines)
                r = drv.run([c])[0]
                st.evaluations += 1
                st.transitions += 1
                st.validated += 1
                script = 'schema %s %s\n%s' % (sch.sid, sch.spec(), c.script())
                if r.status in ('crash', 'hang'):
                    st.violation('%s:%s' % (r.status, engine.sanitizer_summary(r.info)), script, '', engine.excerpt(r.info))
                    continue
                outs = r.all('out ')
                text = dec(outs[0].split(' ')[2]) if outs else b''
                PF_EXTRA.clear()
                if not clear:
                    PF_EXTRA.add(id(o))
                exp = rel(entries(store, None, 0, lambda s_: None))
                PF_EXTRA.clear()
                got, badline = reduce_output(text)
                st.outcome(text)
                st.nontriv(path + (b'!' if clear else b''))
                if got is None or len(exp) != len(got) or not all(same(e, g) for e, g in zip(exp, got)):
                    st.violation('print-structure:callback-by-path%s' % ('-cleared' if clear else ''), script, '\n'.join(map(str, exp)), text.decode('latin-1'))
    st.samples.append({'registration': 'cfg_set_print_func(cfg, "sub|m=1|z", cb)', 'forms': 'unqualified first instance, =index, =title, =\'quoted title\''})
    return st.result([drv])


def all_instances(store):
    """every section instance below the context: [(driver reference, SecState)] in declaration / instance order"""
    out = []

    def walk(sec, ref):
        for o in sec.opts:
            if o.decl.kind == 'sec':
                for k, inst in enumerate(o.values):
                    r = '%s/%s.%d' % (ref, o.decl.name.decode(), k)
                    out.append((r, inst))
                    walk(inst, r)
    walk(store, 'A')
    return out


STATES2 = STATES[:3] + [b'mt a { sub { z = 1 } } mt b { } mt c { x = 3 } sub { m { l = {1} } m { } m { z = 9 } }']


def shard_instances(sh):
    """a filter choice for the context and for EVERY section instance independently (second and later instances, both
    branches of the tree); the whole print is compared with the expected entry sequence"""
    pfset, sidx, choices, firsts, deadline = sh
    drv = get_driver('asan')
    st = ShardStats('per-instance filters')
    sch = schema(pfset)
    drv.define_schema(sch.sid, sch.spec())
    stext = STATES2[sidx]
    m = reftext.meaning(sch, 0, stext)
    assert m.verdict == ACCEPT, (stext, m.why)
    store = m.store
    insts = all_instances(store)
    head = ['init A %s 0' % sch.sid, 'cb_quiet 1', 'parse_buf A ' + enc(stext)]
    for k, names in FILTERS.items():
        head.append('pffnames %d %s' % (k, ' '.join(enc(n) for n in names)))
    for f0 in firsts:
        cases, metas = [], []
        for combo in itertools.product(choices, repeat=len(insts)):
            own = {}
            lines = list(head)
            if f0:
                lines.append('set_pff A %d' % f0)
                own[id(store)] = set(FILTERS[f0])
            for (ref, inst), f in zip(insts, combo):
                if f:
                    lines.append('set_pff %s %d' % (ref, f))
                    own[id(inst)] = set(FILTERS[f])
            lines.append('print A')
            cases.append(Case(lines))
            metas.append((own, (f0,) + combo))
        for lo in range(0, len(cases), 2000):
            results = drv.run(cases[lo:lo + 2000])
            for c, r, (own, combo) in zip(cases[lo:lo + 2000], results, metas[lo:lo + 2000]):
                st.evaluations += 1
                st.transitions += 1
                st.validated += 1
                script = 'schema %s %s\n%s' % (sch.sid, sch.spec(), c.script())
                if r.status in ('crash', 'hang'):
                    st.violation('%s:%s' % (r.status, engine.sanitizer_summary(r.info)), script, '', engine.excerpt(r.info))
                    continue
                outs = r.all('out ')
                if len(outs) != 1:
                    st.violation('protocol', script, '1 print', r.text()[-300:])
                    continue
                text = dec(outs[0].split(' ')[2])
                st.outcome(outs[0])
                st.nontriv(outs[0])
                filters_of = lambda s_, own=own: own.get(id(s_))
                exp = rel(entries(store, own.get(id(store)), 0, filters_of))
                got, badline = reduce_output(text)
                if got is None:
                    st.violation('unrecognised-line', script, 'a line of one of the known shapes', repr(badline))
                    continue
                if len(exp) != len(got) or not all(same(e, g) for e, g in zip(exp, got)):
                    st.violation('print-structure:per-instance-filters', script, '\n'.join(map(str, exp)), '\n'.join(map(str, got)) + '\n--- raw:\n' + text.decode('latin-1'))
            if time.time() > deadline:
                st.complete = False
                break
        if not st.complete:
            break
    # a filter that is installed and then cleared again (NULL) is gone: the context prints under what it inherits
    cases, metas = [], []
    for f0 in firsts:
        for (ref, inst) in [('A', store)] + insts:
            for f in (1, 2, 3):
                own = {}
                lines = list(head)
                if f0:
                    lines.append('set_pff A %d' % f0)
                    own[id(store)] = set(FILTERS[f0])
                lines += ['set_pff %s %d' % (ref, f), 'set_pff %s -' % ref, 'print A']
                own.pop(id(inst), None)
                cases.append(Case(lines))
                metas.append(own)
    for c, r, own in zip(cases, drv.run(cases), metas):
        st.evaluations += 1
        st.transitions += 1
        st.validated += 1
        script = 'schema %s %s\n%s' % (sch.sid, sch.spec(), c.script())
        if r.status in ('crash', 'hang'):
            st.violation('%s:%s' % (r.status, engine.sanitizer_summary(r.info)), script, '', engine.excerpt(r.info))
            continue
        outs = r.all('out ')
        text = dec(outs[0].split(' ')[2]) if outs else b''
        filters_of = lambda s_, own=own: own.get(id(s_))
        exp = rel(entries(store, own.get(id(store)), 0, filters_of))
        got, badline = reduce_output(text)
        if got is None or len(exp) != len(got) or not all(same(e, g) for e, g in zip(exp, got)):
            st.violation('print-structure:cleared-filter-still-applies', script, '\n'.join(map(str, exp)), text.decode('latin-1'))
    # a filter that was in force while the instances were created is not theirs: replacing or clearing it on the context later
    # reaches every instance that has none of its own
    cases, metas = [], []
    names = ['pffnames %d %s' % (k, ' '.join(enc(n) for n in nm)) for k, nm in FILTERS.items()]
    for f in (1, 2, 3):
        for g in (0, 1, 2, 3):
            if g == f:
                continue
            lines = ['init A %s 0' % sch.sid, 'cb_quiet 1'] + names + ['set_pff A %d' % f, 'parse_buf A ' + enc(stext),
                     'set_pff A %s' % (g if g else '-'), 'print A']
            cases.append(Case(lines))
            metas.append({id(store): set(FILTERS[g])} if g else {})
    for c, r, own in zip(cases, drv.run(cases), metas):
        st.evaluations += 1
        st.transitions += 1
        st.validated += 1
        script = 'schema %s %s\n%s' % (sch.sid, sch.spec(), c.script())
        if r.status in ('crash', 'hang'):
            st.violation('%s:%s' % (r.status, engine.sanitizer_summary(r.info)), script, '', engine.excerpt(r.info))
            continue
        outs = r.all('out ')
        text = dec(outs[0].split(' ')[2]) if outs else b''
        filters_of = lambda s_, own=own: own.get(id(s_))
        exp = rel(entries(store, own.get(id(store)), 0, filters_of))
        got, badline = reduce_output(text)
        if got is None or len(exp) != len(got) or not all(same(e, g_) for e, g_ in zip(exp, got)):
            st.violation('print-structure:filter-of-creation-time-sticks', script, '\n'.join(map(str, exp)), text.decode('latin-1'))
    # a print callback that is cleared again (NULL) is gone: the built-in formatting is back for exactly that option
    for name in ('i', 'l'):
        if name not in pfset:
            continue
        sch2 = schema(pfset - {name})
        store2 = reftext.meaning(sch2, 0, stext).store
        c = Case(head + ['set_pf A/%s 0' % name, 'print A'])
        r = drv.run([c])[0]
        st.evaluations += 1
        st.transitions += 1
        st.validated += 1
        script = 'schema %s %s\n%s' % (sch.sid, sch.spec(), c.script())
        if r.status in ('crash', 'hang'):
            st.violation('%s:%s' % (r.status, engine.sanitizer_summary(r.info)), script, '', engine.excerpt(r.info))
            continue
        outs = r.all('out ')
        text = dec(outs[0].split(' ')[2]) if outs else b''
        exp = rel(entries(store2, None, 0, lambda s_: None))
        got, badline = reduce_output(text)
        if got is None or len(exp) != len(got) or not all(same(e, g) for e, g in zip(exp, got)):
            st.violation('print-structure:cleared-callback-still-used', script, '\n'.join(map(str, exp)), text.decode('latin-1'))
    if not st.samples:
        st.samples.append({'state': stext.decode('latin-1'), 'section_instances': [r for r, _ in insts], 'filter_choices_per_instance': list(choices)})
    return st.result([drv])


def main():
    ck = engine.Check(PID)
    if ck.replay:
        engine.replay_file(ck.replay)
        return
    engine.build(['asan'])
    quick = ck.tier == 'quick'
    pfsets = []
    for n in range(0, 5):
        pfsets += [frozenset(c) for c in itertools.combinations(PF_SLOTS, n)]
    shards = [([p], ck.deadline) for p in pfsets]
    engine.phase(ck, 'print-callback subsets x 4 states x 64 filter combinations', shard, shards, subsets=len(pfsets))
    engine.phase(ck, 'a print callback registered by path (every qualifier form) for every value option of every section instance x 4 states, set and cleared', shard_bypath, [ck.deadline])
    engine.phase(ck, 'cfg_print_indent at every base level 1..%d x 4 states; a chain of %d nested sections' % ((40, 24) if quick else (300, 120)), shard_indent,
                 [((40, 24) if quick else (300, 120)) + (ck.deadline,)])
    # a filter choice per section instance, independently (later instances, both branches)
    cap = 7000 if quick else 1100000
    shards = []
    plan = []
    for sidx in range(len(STATES2)):
        n = len(all_instances(reftext.meaning(schema(frozenset()), 0, STATES2[sidx]).store))
        choices = [c for c in ((0, 1, 2, 3), (0, 1, 3), (0, 3)) if len(c) ** n <= cap][0]
        plan.append({'state': sidx, 'section_instances': n, 'choices_per_instance': len(choices)})
        for pfset in (frozenset(), frozenset(PF_SLOTS)):
            for f0 in (0, 1, 2, 3):
                shards.append((pfset, sidx, choices, [f0], ck.deadline))
    engine.phase(ck, 'a filter choice for the context and for every section instance independently x 4 states x {no, all} print callbacks',
                 shard_instances, shards, plan=plan)
    if not quick:
        rest = [frozenset(c) for n in (5, 6) for c in itertools.combinations(PF_SLOTS, n)]
        engine.phase(ck, 'the remaining print-callback subsets (5 and 6 options) x 4 states x 64 filter combinations', shard, [([p_], ck.deadline) for p_ in rest],
                     subsets=len(rest))
    ck.assumptions = ['exact spacing, brace placement and number formatting are not compared (floats: any numeral); what follows "# name=" for an '
                      'unset option is formatting', 'no annotations in these schemas (annotation lines belong to C15 / C05)']
    ck.finish('schema variant (subset of print callbacks) x state x filter per nesting level (none / 3 name sets); non-trivial = distinct outputs')


if __name__ == '__main__':
    main()
