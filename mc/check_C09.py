#!/usr/bin/env python3
"""C09 - setter, list and section API behaves as a simple typed store.

Explicit-state BFS over ~65 API calls from four start states (after init, after three parsed texts);
every transition is executed on the real library and compared with refstore (return value, sizes,
values, titles, MODIFIED)."""
import sys, os
sys.path.insert(0, os.path.dirname(os.path.abspath(__file__)))
import engine
import apibfs

PID = 'C09'


def main():
    ck = engine.Check(PID)
    if ck.replay:
        engine.replay_file(ck.replay)
        return
    engine.build(['asan'])
    quick = ck.tier == 'quick'
    ops = apibfs.ops_alphabet()
    ck.cov['operations'] = len(ops)
    depth = 3 if quick else 5
    from model import CFGF
    nops = apibfs.ops_alphabet(nocase=True)
    # cheapest and most diverse first (a deadline only costs depth): both contexts to depth 2, then the deeper levels
    apibfs.run_bfs(ck, apibfs.A1, 0, apibfs.STARTS, ops, 2, label='api-depth2')
    # the same store under a case-insensitive context: names and titles fold
    apibfs.run_bfs(ck, apibfs.A1, CFGF['NOCASE'], [b'', b'MT a { X = 3 } mt b { } m { }'], nops, 2 if quick else 3, label='api-nocase')
    apibfs.run_bfs(ck, apibfs.A1, 0, apibfs.STARTS, ops, depth)
    ck.assumptions = ['state deduplication on the implementation\'s full dump (values, MODIFIED, RESET, annotations): the future of a context '
                      'depends on nothing else', 'lists are capped at 4 values and section options at 3 instances',
                      'UNSPEC: MODIFIED after cfg_setlist(..,0) and on section options; cfg_addtsec / removal on non-multi sections']
    ck.finish('breadth-first search: transition = one real API call on a context rebuilt from its history; non-trivial = distinct full dumps reached')


if __name__ == '__main__':
    main()
