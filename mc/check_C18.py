#!/usr/bin/env python3
"""C18 - running out of memory yields an error return, not corruption.

Workloads that together call every public entry point; for each workload the k-th allocation request
issued by confuse.c fails, for every k (pairs of failing requests in the thorough tier).
Oracle: no abort / signal / sanitizer report; the call in which the fault fell either completed (same
result and same dump as in the fault-free run) or reported failure through its return value; afterwards
whatever context exists can be dumped, printed, parsed into and freed; block balance zero, nothing
released twice."""
import sys, os, time, re, itertools
sys.path.insert(0, os.path.dirname(os.path.abspath(__file__)))
import engine
from engine import Case, enc, ShardStats, get_driver, REPO
from model import Opt, Schema, CFGF

PID = 'C18'
E = enc
RICH = Schema('M1', [
    Opt('int', 'i', '', 5), Opt('int', 'il', 'L', [b'1', b'2']), Opt('str', 's', '', b'dflt'), Opt('str', 'sl', 'L', [b'a', b'b']),
    Opt('float', 'f', '', 1.5), Opt('bool', 'b', '', True), Opt('float', 'fl', 'L', [b'1.5']), Opt('bool', 'bl', 'L', [b'yes']),
    Opt('sec', 'sec', '', sub=[Opt('int', 'x', '', 1), Opt('str', 'y', '', b'yy'), Opt('sec', 'in', 'MT', sub=[Opt('str', 'z', 'L', [b'q'])])]),
    Opt('sec', 'm', 'M', sub=[Opt('int', 'x', '', 1), Opt('str', 'sl', 'L', [b'k'])]),
    Opt('sec', 'mt', 'MT', sub=[Opt('int', 'x', '', 1), Opt('str', 's', '', b'tt')]),
    Opt('sec', 'kv', 'K', sub=[Opt('str', 'k0', '', b'v0')]),
    Opt('func', 'fn', '', None, 'u'), Opt('func', 'include', '', None, 'i'),
    Opt('ptr', 'p', '', None, 'pf'), Opt('ptr', 'pl', 'L', None, 'pf'),
    Opt('int', 'dep', 'D', 3), Opt('int', 'drop', 'LDX', [b'1']), Opt('int', 'cbi', '', 2, 'pvw'), Opt('str', 'cbs', 'L', None, 'pv'),
    Opt('int', 'si', 'S'), Opt('str', 'ss', 'S'), Opt('float', 'sf', 'S'), Opt('bool', 'sb', 'S')])      # 'simple' options: the value lives in the caller's variable
TEXT = (b'i = 7 il += {3, 4} s = "new" sl = {x, y, z} f = 2.5 b = off fl = {1, 2} bl += {no}\n'
        b'# note\nsec { x = 2 y = z in "t 1" { z += {r} } in t2 { } }\nm { x = 2 } m { sl = {} } mt a { x = 3 } mt "b c" { s = u } mt a { }\n'
        b'kv { k1 = v1 k2 = v2 k0 = w } fn(a, "b c") p = pv pl = {p1, p2} dep = 4 drop = {5} cbi = 9 cbs = {m, n}\n')
PROBE = b'i = 1 m { } mt z { } sl += {probe}'

# driver op -> public entry points it exercises
OPS_API = {
    'init': ['cfg_init'], 'free': ['cfg_free'], 'parse_buf': ['cfg_parse_buf', 'cfg_parse_fp'], 'parse_fp': ['cfg_parse_fp'], 'parse': ['cfg_parse'],
    'addpath': ['cfg_add_searchpath'], 'setint': ['cfg_setint', 'cfg_setnint'], 'setfloat': ['cfg_setfloat', 'cfg_setnfloat'],
    'setbool': ['cfg_setbool', 'cfg_setnbool'], 'setstr': ['cfg_setstr', 'cfg_setnstr'], 'osetint': ['cfg_opt_setnint'], 'osetfloat': ['cfg_opt_setnfloat'],
    'osetbool': ['cfg_opt_setnbool'], 'osetstr': ['cfg_opt_setnstr'], 'setlist': ['cfg_setlist'], 'addlist': ['cfg_addlist'], 'setmulti': ['cfg_setmulti'],
    'osetmulti': ['cfg_opt_setmulti'], 'setopt': ['cfg_setopt'], 'setcomment': ['cfg_setcomment'], 'osetcomment': ['cfg_opt_setcomment'],
    'addtsec': ['cfg_addtsec'], 'rmnsec': ['cfg_rmnsec'], 'rmtsec': ['cfg_rmtsec'], 'rmsec': ['cfg_rmsec'], 'ormnsec': ['cfg_opt_rmnsec'],
    'ormtsec': ['cfg_opt_rmtsec'], 'getopt': ['cfg_getopt'], 'getsec': ['cfg_getsec'], 'getnsec': ['cfg_getnsec'], 'gettsec': ['cfg_gettsec', 'cfg_opt_gettsec'],
    'get': ['cfg_getnint', 'cfg_getnfloat', 'cfg_getnbool', 'cfg_getnstr', 'cfg_getnptr', 'cfg_getptr', 'cfg_size', 'cfg_getcomment', 'cfg_getint', 'cfg_getfloat', 'cfg_getbool', 'cfg_getstr'],
    'print': ['cfg_print', 'cfg_print_indent'], 'oprint': ['cfg_opt_print', 'cfg_opt_print_indent', 'cfg_opt_nprint_var'],
    'set_pff': ['cfg_set_print_filter_func'], 'set_pf': ['cfg_opt_set_print_func'], 'set_pf_name': ['cfg_set_print_func'],
    'set_vf': ['cfg_set_validate_func'], 'set_vf2': ['cfg_set_validate_func2'], 'seterr': ['cfg_set_error_function'],
    'tilde': ['cfg_tilde_expand'], 'searchpath': ['cfg_searchpath'], 'roundtrip': ['cfg_print', 'cfg_parse_buf'],
    'dump': ['cfg_getnopt', 'cfg_opt_size', 'cfg_opt_getnint', 'cfg_opt_getnfloat', 'cfg_opt_getnbool', 'cfg_opt_getnstr', 'cfg_opt_getnptr',
             'cfg_opt_getnsec', 'cfg_title', 'cfg_opt_getcomment', 'cfg_name', 'cfg_opt_name'],
    'secinfo': ['cfg_name', 'cfg_title'],
    'misc': ['cfg_num', 'cfg_numopts', 'cfg_opt_getstr', 'cfg_parse_boolean'],
}
FAILVAL = {'init': '0', 'setopt': '0', 'addtsec': '0', 'parse_buf': ('1', '-1'), 'parse_fp': ('1', '-1'), 'parse': ('1', '-1'), 'roundtrip': ('1', '-1')}
NOCOUNT = ('dump', 'note', 'allocs', 'mkfile', 'mkdir', 'wipe', 'passwd', 'me', 'cb_quiet', 'w_mode', 'pffnames', 'env')


def workloads(root):
    r = root
    W = {}
    W['init-only'] = (0, ['init A M1 0'])
    W['init-flags'] = (0, ['init A M1 %d' % (CFGF['COMMENTS'] | CFGF['NOCASE'] | CFGF['IGNORE_UNKNOWN'])])
    W['parse-rich'] = (CFGF['COMMENTS'], ['init A M1 %d' % CFGF['COMMENTS'], 'parse_buf A ' + E(TEXT)])
    W['parse-twice'] = (0, ['init A M1 0', 'addpath A ' + E(r + '/sp'), 'parse_buf A ' + E(TEXT), 'parse_buf A ' + E(TEXT)])
    W['parse-fp-ignore'] = (CFGF['IGNORE_UNKNOWN'], ['init A M1 %d' % CFGF['IGNORE_UNKNOWN'], 'parse_fp A ' + E(b'zz = 1 u { a = {1,2} } ' + TEXT)])
    W['parse-error'] = (0, ['init A M1 0', 'parse_buf A ' + E(b'il = {1, 2 sec { in t { z = {a} ] }')])
    W['setters'] = (0, ['init A M1 0', 'setint A %s 7' % E('i'), 'setint A %s 7 3' % E('il'), 'setfloat A %s 2.5' % E('f'), 'setfloat A %s 2.5 1' % E('fl'),
                        'setbool A %s 0' % E('b'), 'setbool A %s 1 2' % E('bl'), 'setstr A %s %s' % (E('s'), E('v')), 'setstr A %s %s 5' % (E('sl'), E('w')),
                        'osetint A/il 8 0', 'osetfloat A/fl 3.5 0', 'osetbool A/bl 0 0', 'osetstr A/sl %s 0' % E('o'), 'setint A %s 3' % E('sec|x'),
                        'setint A %s 7' % E('cbi'), 'setstr A %s %s' % (E('sec|y'), E('n'))])
    W['lists'] = (0, ['init A M1 0', 'setlist A %s int 3 1 2 3' % E('il'), 'addlist A %s int 2 4 5' % E('il'), 'setlist A %s str 2 %s %s' % (E('sl'), E('a'), E('b')),
                      'addlist A %s str 1 %s' % (E('sl'), E('c')), 'setlist A %s float 1 2.5' % E('fl'), 'addlist A %s bool 2 1 0' % E('bl'),
                      'setlist A %s int 0' % E('il'), 'addlist A %s int 1 9' % E('il')])
    W['bulk-and-text'] = (0, ['init A M1 0', 'setmulti A %s 3 %s %s %s' % (E('il'), E('3'), E('4'), E('5')), 'setmulti A %s 2 %s %s' % (E('sl'), E('p'), E('q')),
                              'setmulti A %s 2 %s %s' % (E('il'), E('3'), E('x')), 'osetmulti A/fl 2 %s %s' % (E('1.5'), E('2')), 'setmulti A %s 1 %s' % (E('s'), E('one')),
                              'setopt A/il ' + E('6'), 'setopt A/s ' + E('txt'), 'setopt A/i ' + E('x'), 'setopt A/p ' + E('ptr1'), 'setopt A/pl ' + E('ptr2'),
                              'setmulti A %s 2 %s %s' % (E('pl'), E('a'), E('b')), 'setopt A/cbs ' + E('viacb')])
    W['annotate-print'] = (CFGF['COMMENTS'], ['init A M1 %d' % CFGF['COMMENTS'], 'parse_buf A ' + E(TEXT), 'setcomment A %s %s' % (E('i'), E('c1')),
                                             'setcomment A %s %s' % (E('i'), E('c2')), 'osetcomment A/sl ' + E('c3'), 'setcomment A %s %s' % (E('sec|x'), E('c4')),
                                             'print A', 'print A 2', 'oprint A/sl', 'oprint A/mt 1', 'init B M1 %d' % CFGF['COMMENTS'], 'roundtrip A B'])
    W['sections'] = (0, ['init A M1 0', 'addpath A ' + E(r + '/sp'), 'addtsec A %s %s' % (E('mt'), E('a')),      # a search path: sections borrow the pointer, a half-built one must not free the list 'addtsec A %s %s' % (E('mt'), E('b c')), 'addtsec A %s %s' % (E('mt'), E('a')),
                         'addtsec A %s %s' % (E('sec|in'), E('t')), 'addtsec A %s %s' % (E('sec|in'), E('t')), 'setint A %s 4' % E("mt='b c'|x"), 'rmtsec A %s %s' % (E('mt'), E('a')),
                         'addtsec A %s %s' % (E('mt'), E('d')), 'rmnsec A %s 0' % E('mt'), 'rmsec A ' + E('mt=d'), 'parse_buf A ' + E(b'm { } m { } m { }'),
                         'ormnsec A/m 1', 'addtsec A %s %s' % (E('mt'), E('e')), 'ormtsec A/mt ' + E('e'), 'rmsec A ' + E('m=1')])
    W['lookups'] = (0, ['init A M1 0', 'parse_buf A ' + E(TEXT), 'getopt A ' + E('sec|in=t2|z'), 'getopt A ' + E("mt='b c'|s"), 'getsec A ' + E("sec|in='t 1'"),
                        'getnsec A %s 1' % E('m'), 'gettsec A %s %s' % (E('mt'), E('a')), 'get A %s int 0' % E('m=1|x'), 'get A %s str 1' % E('sl'),
                        'get A %s float 0' % E('f'), 'get A %s bool 0' % E('b'), 'get A %s size 0' % E('sec|in'), 'get A %s comment 0' % E('i'),
                        'getopt A ' + E('nosuch|x'), 'getsec A ' + E('mt=zz'), 'get A %s ptr 0' % E('p'), 'get A %s ptr 1' % E('pl'),
                        'misc A ' + E('s')])
    W['files'] = (0, ['wipe', 'mkdir ' + E('sp'), 'mkfile %s %s' % (E('sp/inc.conf'), E(b'i = 42\ninclude("inc2.conf")\n')),
                      'mkfile %s %s' % (E('sp/inc2.conf'), E(b's = deep\n')), 'mkfile %s %s' % (E('top.conf'), E(b'il += {8}\ninclude("inc.conf")\n')),
                      'passwd %s %s' % (E('me'), E(r + '/h')), 'me ' + E('me'),
                      'mkdir ' + E('sp2'), 'mkfile %s %s' % (E('sp2/inc.conf'), E(b'i = 43\n')),      # the same name in a later search directory
                      'init A M1 0', 'tilde ' + E('~/x'), 'tilde ' + E('~me/y'), 'tilde ' + E('plain'), 'addpath A ' + E(r + '/sp'), 'addpath A ' + E('~/q'),
                      'addpath A ' + E(r + '/sp2'),
                      'searchpath A ' + E('inc.conf'), 'searchpath A ' + E('nope.conf'), 'parse A ' + E(r + '/top.conf'), 'parse_buf A ' + E(b'include("inc.conf")'),
                      'parse A ' + E('inc2.conf'), 'parse A ' + E('missing.conf')])
    W['files-nopath'] = (0, ['wipe', 'mkfile %s %s' % (E('a.conf'), E(b'i = 42\ninclude("b.conf")\n')), 'mkfile %s %s' % (E('b.conf'), E(b's = deep\ni = x\n')),
                             'init A M1 0', 'parse A ' + E('a.conf'), 'parse_buf A ' + E(b'include("a.conf")')])
    W['callbacks-filters'] = (0, ['init A M1 0', 'set_vf A %s 1' % E('i'), 'set_vf A %s 1' % E('mt|x'), 'set_vf2 A %s 1' % E('s'), 'set_vf A %s 1' % E('nosuch|x'),
                                  'set_pf A/i 1', 'set_pf_name A %s 1' % E('sec|x'), 'pffnames 0 ' + E('s') + ' ' + E('x'), 'set_pff A 0', 'seterr A 0',
                                  'seterr A 1', 'cb_quiet 1', 'parse_buf A ' + E(b'i = 3 mt a { x = 2 } s = t'), 'setstr A %s %s' % (E('s'), E('u')), 'print A',
                                  'oprint A/sec'])
    W['free-form'] = (0, ['init A M1 0', 'parse_buf A ' + E(b'kv { a = 1 b = 2 c = 3 a = 4 }'), 'parse_buf A ' + E(b'kv { d = 5 }'),
                          'setstr A %s %s' % (E('kv|a'), E('z'))])
    W['simple-options'] = (0, ['init A M1 0', 'setstr A %s %s' % (E('ss'), E('original')), 'setmulti A %s 2 %s %s' % (E('ss'), E('first'), E('second')),
                               'setmulti A %s 2 %s %s' % (E('si'), E('3'), E('x')), 'setopt A/ss ' + E('viatext'), 'setopt A/si ' + E('6'),
                               'parse_buf A ' + E(b'ss = parsed si = 4 sf = 2.5 sb = on ss = again'), 'setint A %s 5' % E('si'), 'setstr A %s %s' % (E('ss'), E('last')),
                               'osetmulti A/ss 1 ' + E('bulk'), 'print A'])
    # option names that are paths: every step is looked up (and copied) before the value is stored
    W['parse-path-names'] = (0, ['init A M1 0', 'parse_buf A ' + E(b'mt a { } sec|x = 5 "mt=a|x" = 6 sec|in t { } "sec|in=t|z" = {w} "sec|in=t|z" += {v}')])
    W['parse-path-names-ignore'] = (CFGF['IGNORE_UNKNOWN'], ['init A M1 %d' % CFGF['IGNORE_UNKNOWN'],
                                                             'parse_buf A ' + E(b'mt a { } sec|x = 5 zz|y = 1 "mt=a|x" = 6 sec|in t { } "sec|in=t|z" += {v} "mt=q|x" = 2 i = 3')])
    # lists that carry an annotation, in and out of their pristine state, set / appended / bulk-set / emptied again
    W['annotated-lists'] = (CFGF['COMMENTS'], ['init A M1 %d' % CFGF['COMMENTS'], 'parse_buf A ' + E(b'# from the text\nsl = {x, y}\n/* two\nlines */\nfl = {2.5}'),
                                               'setcomment A %s %s' % (E('il'), E('pristine list')), 'setlist A %s int 2 7 8' % E('il'),
                                               'setlist A %s str 2 %s %s' % (E('sl'), E('a'), E('b')), 'setcomment A %s %s' % (E('sl'), E('again')),
                                               'addlist A %s str 1 %s' % (E('sl'), E('c')), 'setmulti A %s 2 %s %s' % (E('sl'), E('p'), E('q')),
                                               'setcomment A %s %s' % (E('bl'), E('bools')), 'setlist A %s bool 0' % E('bl'), 'setlist A %s float 2 1.5 2.5' % E('fl'),
                                               'setmulti A %s 2 %s %s' % (E('il'), E('3'), E('x')), 'print A'])
    W['two-contexts'] = (0, ['init A M1 0', 'init B M1 %d' % CFGF['NOCASE'], 'parse_buf A ' + E(b'i = 1 m { }'), 'parse_buf B ' + E(b'I = 2 M { X = 3 }'),
                             'free A', 'parse_buf B ' + E(b'mt q { }')])
    return W


def exported_functions():
    names = set()
    try:
        for m in re.finditer(r'DLLIMPORT[^;(]*?\b(cfg_[a-z_0-9]+)\s*\(', open(os.path.join(REPO, 'src', 'confuse.h')).read()):
            names.add(m.group(1))
    except OSError:
        pass
    return names


def opname(line):
    return line.split(' ', 1)[0]


def build_case(ops, k, k2=0):
    """ops interleaved with counters and dumps; a fixed epilogue"""
    lines = ['cb_quiet 0']
    if k:
        lines.append('fail_alloc %d %d' % (k, k2))
    for op in ops:
        lines.append(op)
        if opname(op) not in NOCOUNT:
            lines.append('allocs')
            lines.append('dump A 7')
    lines += ['note epilogue', 'fail_alloc 0', 'allocs', 'dump A 7', 'dump B 7', 'print A', 'parse_buf A ' + E(PROBE), 'dump A 0', 'free A', 'free B']
    return Case(lines)


def split_steps(res, ops):
    """-> list of (op, [lines of that step]) for the counted ops, and the epilogue lines"""
    steps, cur, it = [], [], iter([o for o in ops if opname(o) not in NOCOUNT])
    lines = res.lines
    k = 0
    # a step ends with its 'dump' line (or 'r dump badref')
    out = []
    for l in lines:
        cur.append(l)
        if l.startswith('dump ') or l == 'r dump badref':
            out.append(cur)
            cur = []
    counted = [o for o in ops if opname(o) not in NOCOUNT]
    return list(zip(counted, out[:len(counted)])), out[len(counted):], cur


def shard(sh):
    wname, ks, k2s, deadline = sh
    drv = get_driver('asan')
    drv.define_schema('M1', RICH.spec())
    root = engine.worker_root() + '-c18'
    if drv.rootdir != root:
        drv.set_root(root)
    flags, ops = workloads(root)[wname]
    st = ShardStats('workload %s' % wname)
    base_case = build_case(ops, 0)
    base = drv.run([base_case])[0]
    if base.status != 'ok':
        st.violation('fault-free-run-unclean', 'schema M1 %s\nroot %s\n%s' % (RICH.spec(), enc(root), base_case.script()), 'CLEAN', base.status + ' ' + base.text()[-600:])
        return st.result([drv])
    bsteps, bepi, _ = split_steps(base, ops)
    for k in ks:
        for k2 in k2s:
            if k2 and k2 <= k:
                continue
            if time.time() > deadline:
                st.complete = False
                break
            c = build_case(ops, k, k2)
            r = drv.run([c])[0]
            st.evaluations += 1
            st.transitions += 1
            st.validated += 1
            script = 'schema M1 %s\nroot %s\n%s' % (RICH.spec(), enc(root), c.script())
            label = wname
            if r.status in ('crash', 'hang'):
                site = ''
                m = re.search(r'libexit (\w+) \d+ (\S+)', r.text() + r.info)
                kind = ('library-called-%s@%s' % (m.group(1), m.group(2).split(':')[0])) if m else engine.sanitizer_summary(r.info)
                st.violation('%s:%s' % (r.status, kind), script, 'an error return (allocation %d of workload %s failing)' % (k, wname), engine.excerpt(r.info) or r.text()[-400:])
                continue
            steps, epi, tail = split_steps(r, ops)
            hyg = r.first('hyg ') or ''
            st.outcome(hyg)
            # find the step in which the (first) fault fell
            fell = None
            for idx, (op, lines) in enumerate(steps):
                al = [l for l in lines if l.startswith('r allocs')]
                if al and ' failed=0 ' not in al[0]:
                    fell = idx
                    break
            verdict_ok = True
            for idx, (op, lines) in enumerate(steps):
                bl = bsteps[idx][1]
                strip = lambda L: [l for l in L if not l.startswith('r allocs') and not l.startswith('diag ')]
                if fell is None or idx < fell:
                    if strip(lines) != strip(bl):
                        st.violation('differs-before-the-fault:%s' % label, script, '\n'.join(strip(bl)), '\n'.join(strip(lines)))
                        verdict_ok = False
                        break
                elif idx == fell and not k2:
                    if strip(lines) == strip(bl):
                        continue        # the call completed
                    name = opname(op)
                    rl = [l for l in lines if l.startswith('r ' + name + ' ')]
                    fv = FAILVAL.get(name, '-1')
                    fv = fv if isinstance(fv, tuple) else (fv,)
                    if name in ('getopt', 'getsec', 'getnsec', 'gettsec'):
                        okfail = rl and rl[0].endswith(' NULL')
                    elif name in ('tilde', 'searchpath'):
                        okfail = rl and rl[0].endswith(' ~')
                    elif name == 'get':
                        rl = [l for l in lines if l.startswith('r get ')]
                        okfail = rl and rl[0] in ('r get 0', 'r get ~', 'r get 0.0')
                    elif name == 'misc':
                        okfail = True
                    elif name in ('print', 'oprint'):
                        okfail = True
                    elif name in ('set_vf', 'set_vf2', 'set_pf', 'set_pf_name', 'set_pff', 'seterr', 'pffnames'):
                        okfail = True       # no failure value to report; the effect is checked through the epilogue only
                    else:
                        okfail = rl and rl[0].split(' ')[2] in fv
                    if not okfail:
                        al = [l for l in lines if l.startswith('r allocs')]
                        st.violation('neither-completed-nor-failed:%s' % name, script,
                                     'same result and dump as without the fault, or the failure value %s' % (fv,),
                                     '\n'.join(lines)[:800] + '\n--- fault-free:\n' + '\n'.join(strip(bl))[:500])
                        verdict_ok = False
                    break
                else:
                    break
            if not verdict_ok:
                continue
            # epilogue: the context is usable and everything is released
            text = '\n'.join(l for part in epi for l in part) + '\n' + '\n'.join(tail)
            if ('r init 0' not in r.text() or wname.startswith('init')) and False:
                pass
            have_ctx = 'dump A 7' and any(l.startswith('dump {') for part in epi[:1] for l in part)
            if have_ctx:
                if '\nr parse_buf 0' not in '\n' + text:
                    st.violation('context-unusable-after-fault:%s' % label, script, 'the probe parse succeeds', text[-700:])
                    continue
            if ' lib=0 scan=0 ' not in hyg or ' foreign=0 ' not in hyg or ' dclose=0 ' not in hyg or not re.search(r'ptr=0,0 ', hyg) or ' files=0 ' not in hyg:
                leaks = r.all('leak ')
                site = leaks[0].split(' ')[1].split(':')[0] if leaks else 'resources'
                st.violation('unbalanced-after-fault:%s' % site, script, 'lib=0 scan=0 files=0 ptr=0,0 foreign=0', hyg + '\n' + '\n'.join(leaks))
                continue
            st.nontriv('%s/%d/%d' % (wname, k, k2))
    if not st.samples:
        st.samples.append({'workload': wname, 'ops': [o[:80] for o in ops][:6], 'failing_requests': [ks[0], ks[-1]] if ks else []})
    return st.result([drv])


def count_requests(wname):
    d = engine.Driver('asan', wid=880000 + os.getpid() % 1000)
    d.define_schema('M1', RICH.spec())
    root = os.path.join(engine.BUILD, 'fx', 'c18-count-%d' % os.getpid())
    d.set_root(root)
    try:
        flags, ops = workloads(root)[wname]
        r = d.run([build_case(ops, 0)])[0]
        al = [l for l in r.lines if l.startswith('r allocs')]
        m = re.search(r'lib=(\d+)', al[-1])
        return int(m.group(1)), r
    finally:
        d.close()


def main():
    ck = engine.Check(PID)
    if ck.replay:
        engine.replay_file(ck.replay)
        return
    engine.build(['asan'])
    quick = ck.tier == 'quick'
    dl = ck.deadline
    W = workloads('/verif/build/fx/x')
    used = set()
    for _, ops in W.values():
        for o in ops:
            used.update(OPS_API.get(opname(o), []))
    used.update(OPS_API['dump'])
    used.update(['cfg_include', 'cfg_error', 'cfg_free_value'])     # reached through include(), diagnostics and setopt/free
    exported = exported_functions()
    missing = sorted(exported - used)
    ck.cov['exported_entry_points'] = len(exported)
    ck.cov['entry_points_without_a_workload'] = missing
    counts = {}
    for w in W:
        counts[w], _ = count_requests(w)
    ck.cov['allocation_requests_per_workload'] = counts
    shards = []
    for w, K in counts.items():
        for ch in engine.chunks(list(range(1, K + 1)), 25):
            shards.append((w, ch, [0], dl))
    engine.phase(ck, 'every single failing request k = 1..K of every workload', shard, shards, workloads=len(W), requests=sum(counts.values()))
    lim = 160 if quick else 100000
    shards = []
    for w, K in counts.items():
        if K <= lim:
            for k in range(1, K + 1):
                shards.append((w, [k], list(range(k + 1, K + 1)), dl))
    engine.phase(ck, 'pairs of failing requests (k, k2) for workloads with K <= %d' % lim, shard, shards)
    ck.assumptions = ['only allocation requests issued by confuse.c count ("library source proper"); requests from the scanner file (flex runtime and the '
                      'string scratch buffer in lexer.l) are out of scope by the property\'s own text',
                      'setter-like calls without a failure value (callback / filter registration) are judged through the epilogue only']
    ck.finish('workload x index k of the failing allocation request (exhaustive over k); non-trivial = distinct (workload, k) that ran to a clean end',
              level='model_checking')


if __name__ == '__main__':
    main()
