"""engine.py - common machinery of the bounded exhaustive explorers.

* Driver      : owns one cfgdrv child, runs batches of case scripts, attributes
                crashes / hangs / non-pristine endings to exactly one case
* Case/Result : a script and what the real library did with it
* run_shards  : fan a list of shards out over worker processes
* Check       : bookkeeping shared by all check_Cxx.py (deadline, violations,
                replay files, known findings, evidence)
"""
import os, sys, time, json, signal, select, subprocess, hashlib, fcntl, re, resource, traceback
import multiprocessing as mp

VERIF = os.path.dirname(os.path.dirname(os.path.abspath(__file__)))
BUILD = os.environ.get('VERIF_BUILD') or os.path.join(VERIF, 'build')
OUTDIR = os.environ.get('VERIF_OUT') or VERIF     # evidence/ and replays/ live here (overridden only for trial runs against scratch trees)
REPO = os.environ.get('VERIF_REPO', '/repo')

SAFE = set(b'abcdefghijklmnopqrstuvwxyzABCDEFGHIJKLMNOPQRSTUVWXYZ0123456789_-')
_ENC = [chr(b) if b in SAFE else '%%%02X' % b for b in range(256)]


def enc(s):
    """string token of the driver protocol"""
    if s is None:
        return '~'
    if isinstance(s, str):
        s = s.encode('latin-1')
    return ':' + ''.join(_ENC[b] for b in s)


def dec(tok):
    if tok == '~':
        return None
    assert tok[0] == ':', tok
    out = bytearray()
    i, n = 1, len(tok)
    while i < n:
        c = tok[i]
        if c == '%':
            out.append(int(tok[i + 1:i + 3], 16))
            i += 3
        else:
            out.append(ord(c))
            i += 1
    return bytes(out)


ASAN_OPTIONS = ('detect_leaks=0:quarantine_size_mb=1:malloc_context_size=3:abort_on_error=1:'
                'allocator_may_return_null=1:detect_stack_use_after_return=0:handle_abort=0')
UBSAN_OPTIONS = 'print_stacktrace=1:abort_on_error=1'
MSAN_OPTIONS = 'abort_on_error=1'


def build(variants=('asan',)):
    """(re)build the driver from /repo's current working tree"""
    variants = [os.environ.get('VERIF_VARIANT_' + v.upper(), v) for v in variants]
    r = subprocess.run([os.path.join(VERIF, 'harness', 'build.sh')] + list(variants),
                       stdout=subprocess.PIPE, stderr=subprocess.STDOUT)
    if r.returncode != 0:
        sys.stdout.write(r.stdout.decode('latin-1'))
        raise SystemExit('BUILD FAILED: the harness could not be built from %s' % REPO)


class Case:
    __slots__ = ('id', 'lines', 'fork', 'horizon', 'meta', 'retried')

    def __init__(self, lines, meta=None, fork=False, horizon=0):
        self.id = None
        self.retried = False
        self.lines = lines
        self.fork = fork
        self.horizon = horizon
        self.meta = meta

    def script(self):
        return '\n'.join(self.lines)


class Result:
    __slots__ = ('lines', 'status', 'info')
    # status: ok | dirty | crash | hang

    def __init__(self):
        self.lines = []
        self.status = 'ok'
        self.info = ''

    def first(self, prefix):
        for l in self.lines:
            if l.startswith(prefix):
                return l
        return None

    def all(self, prefix):
        return [l for l in self.lines if l.startswith(prefix)]

    def text(self):
        return '\n'.join(self.lines)


def _set_limits():
    resource.setrlimit(resource.RLIMIT_STACK, (8 * 1024 * 1024, 8 * 1024 * 1024))
    resource.setrlimit(resource.RLIMIT_CORE, (0, 0))


class Driver:
    """One cfgdrv child.  Cases of a batch are answered in order; whatever is not
    answered because the child died, hung or declared itself not pristine is
    re-submitted to a fresh child."""

    MAXBATCH = 400 * 1024

    def __init__(self, variant='asan', wid=0, horizon=20.0, extra_env=None):
        variant = os.environ.get('VERIF_VARIANT_' + variant.upper(), variant)     # e.g. VERIF_VARIANT_ASAN=cov for a coverage run
        self.variant = variant
        self.wid = wid
        self.horizon = horizon
        self.exe = os.path.join(BUILD, variant, 'cfgdrv')
        self.schemas = {}
        self.rootdir = None
        self.p = None
        self.restarts = 0
        self.restart_reasons = {}
        self.extra_env = extra_env or {}
        self.errpath = os.path.join(BUILD, 'err', '%s.%d.%d.txt' % (variant, os.getpid(), wid))
        os.makedirs(os.path.dirname(self.errpath), exist_ok=True)
        self.seq = 0
        self.hang_retries = 0
        self.confirmed_hangs = 0

    def _horizon(self, c):
        """time limit of a case.  Once two cases of this driver have hung even alone and with six times the limit, the library
        under test does hang (the verdict is there already): the remaining cases get a short limit, so that a check against
        such a library ends in minutes, not hours"""
        h = c.horizon or self.horizon
        if self.confirmed_hangs >= 2 and not c.retried:
            h = min(h, 4)
        return h

    # -- process management
    def start(self):
        env = {'PATH': '/usr/bin:/bin', 'LC_ALL': 'C', 'ASAN_OPTIONS': ASAN_OPTIONS,
               'UBSAN_OPTIONS': UBSAN_OPTIONS, 'MSAN_OPTIONS': MSAN_OPTIONS}
        env.update(self.extra_env)
        self.errf = open(self.errpath, 'wb')
        self.p = subprocess.Popen([self.exe], stdin=subprocess.PIPE, stdout=subprocess.PIPE,
                                  stderr=self.errf, env=env, preexec_fn=_set_limits, bufsize=0)
        for f in (self.p.stdin, self.p.stdout):
            try:
                fcntl.fcntl(f.fileno(), 1031, 1 << 20)  # F_SETPIPE_SZ
            except OSError:
                pass
        self.rbuf = b''
        pre = []
        if self.rootdir:
            pre.append('root ' + enc(self.rootdir))
        for sid, spec in self.schemas.items():
            pre.append('schema %s %s' % (sid, spec))
        if pre:
            self._write(('\n'.join(pre) + '\n').encode('latin-1'))

    def stop(self):
        if self.p:
            try:
                self.p.stdin.close()
            except Exception:
                pass
            try:
                self.p.wait(timeout=1.5)      # end of input: the driver leaves normally (flushes coverage data)
            except Exception:
                pass
            try:
                self.p.kill()
            except Exception:
                pass
            self.p.wait()
            self.p.stdout.close()
            self.p = None
            self.errf.close()

    def close(self):
        self.stop()
        try:
            os.unlink(self.errpath)
        except OSError:
            pass

    def _restart(self, why):
        self.restarts += 1
        self.restart_reasons[why] = self.restart_reasons.get(why, 0) + 1
        self.stop()
        self.start()

    def _write(self, data):
        try:
            self.p.stdin.write(data)
            self.p.stdin.flush()
        except (BrokenPipeError, OSError):
            pass

    def stderr_text(self):
        try:
            self.errf.flush()
            with open(self.errpath, 'rb') as f:
                return f.read().decode('latin-1')
        except OSError:
            return ''

    def define_schema(self, sid, spec):
        if self.schemas.get(sid) == spec:
            return
        self.schemas[sid] = spec
        if self.p:
            self._write(('schema %s %s\n' % (sid, spec)).encode('latin-1'))

    def set_root(self, path):
        self.rootdir = path
        if self.p:
            self._write(('root %s\n' % enc(path)).encode('latin-1'))

    def _readline(self, deadline):
        """one protocol line, None on EOF, 'TIMEOUT' when the deadline passes"""
        while True:
            i = self.rbuf.find(b'\n')
            if i >= 0:
                line = self.rbuf[:i]
                self.rbuf = self.rbuf[i + 1:]
                return line.decode('latin-1')
            left = deadline - time.time()
            if left <= 0:
                return 'TIMEOUT'
            r, _, _ = select.select([self.p.stdout], [], [], min(left, 5.0))
            if not r:
                continue
            chunk = os.read(self.p.stdout.fileno(), 1 << 16)
            if not chunk:
                return None
            self.rbuf += chunk

    # -- running cases
    def run(self, cases):
        """returns a list of Result, one per case, in order"""
        if not self.p:
            self.start()
        results = [None] * len(cases)
        pending = list(range(len(cases)))
        while pending:
            # assemble one batch that fits the pipe
            batch, size = [], 0
            for ci in pending:
                c = cases[ci]
                self.seq += 1
                c.id = '%d' % self.seq
                txt = 'begin %s%s\n%s\nend\n' % (c.id, (' fork %d' % int(self._horizon(c))) if c.fork else '', c.script())
                if batch and size + len(txt) > self.MAXBATCH:
                    self.seq -= 1
                    break
                batch.append((ci, txt))
                size += len(txt)
            self._write(''.join(t for _, t in batch).encode('latin-1'))
            done = 0
            restart_why = None
            for ci, _ in batch:
                c = cases[ci]
                res = Result()
                limit = self._horizon(c) + (2.0 if c.fork else 0.0)
                deadline = time.time() + limit
                state = 0
                while True:
                    line = self._readline(deadline)
                    if line is None:
                        res.status = 'crash'
                        rc = None
                        try:
                            rc = self.p.wait(timeout=5)
                        except Exception:
                            pass
                        res.info = 'driver exited, status %s' % rc
                        restart_why = 'crash'
                        break
                    if line == 'TIMEOUT':
                        res.status = 'hang'
                        res.info = 'no answer within %.0f s' % limit
                        restart_why = 'hang'
                        break
                    if state == 0:
                        if line == 'begin ' + c.id:
                            state = 1
                            continue
                        if line == 'skip ' + c.id:
                            res = None
                            break
                        if line == 'drverror':
                            raise RuntimeError('driver protocol error: ' + self.stderr_text()[-2000:])
                        # the case in flight disturbed the protocol itself (e.g. the library consumed the command stream)
                        res.status = 'crash'
                        res.info = 'protocol out of step after this case: got %r' % line[:200]
                        restart_why = 'crash'
                        break
                    if line == 'end ' + c.id:
                        break
                    if line == 'drverror':
                        raise RuntimeError('driver protocol error in case:\n%s\n%s' % (c.script(), self.stderr_text()[-2000:]))
                    res.lines.append(line)
                if res is None:
                    # skipped by a draining driver: must be re-run in a fresh process
                    if restart_why is None:
                        restart_why = 'dirty'
                    break
                if res.status in ('crash', 'hang'):
                    res.info += '\n' + self.stderr_text()[-6000:]
                    results[ci] = res
                    done += 1
                    break
                if res.lines and res.lines[-1].endswith(' DIRTY'):
                    res.status = 'dirty'
                if any(l.startswith('crash ') for l in res.lines):
                    res.status = 'crash'
                    cl = [l for l in res.lines if l.startswith('crash ')][0]
                    if cl == 'crash sig=14':
                        res.status = 'hang'
                    res.info = cl + '\n' + self.stderr_text()[-6000:]
                    # forked child: the parent is still clean; truncate stderr for the next case
                    try:
                        self.errf.truncate(0)
                        self.errf.seek(0)
                    except OSError:
                        pass
                results[ci] = res
                done += 1
            pending = pending[done:]
            if restart_why or (pending and restart_why is None and done < len(batch)):
                self._restart(restart_why or 'dirty')
        # a case that did not answer in time is run once more, alone, with six times the limit, before it is called a hang (a
        # loaded machine must not turn into a verdict); at most a few times per driver, a library that really hangs hangs every time
        for i, r in enumerate(results):
            if r is not None and r.status == 'hang' and not cases[i].retried and self.hang_retries < 4 and self.confirmed_hangs < 2:
                self.hang_retries += 1
                c = cases[i]
                c2 = Case(list(c.lines), fork=c.fork, horizon=int((c.horizon or self.horizon) * 6))
                c2.retried = True
                r2 = self.run([c2])[0]
                if r2.status == 'hang':
                    self.confirmed_hangs += 1
                c.id = c2.id
                results[i] = r2
        return results


def excerpt(info, n=1800):
    """the informative part of a crash record: from the sanitizer's ERROR line on"""
    if not info:
        return ''
    i = info.find('ERROR:')
    if i < 0:
        i = info.find('runtime error')
    if i < 0:
        return info[-n:]
    head = info[:info.find('\n')] if '\n' in info else ''
    return (head + '\n' + info[max(0, i - 12):i + n]).strip()


def sanitizer_summary(info):
    """short, stable description of a crash: error class + first library frame"""
    if not info:
        return 'unknown'
    m = re.search(r'ERROR: (?:Address|Memory|Leak|UndefinedBehavior)Sanitizer: ([A-Za-z0-9_-]+)', info)
    cls = m.group(1) if m else None
    if not cls:
        m = re.search(r'runtime error: ([^\n]*)', info)
        if m:
            cls = 'ubsan:' + re.sub(r'0x[0-9a-f]+', 'ADDR', m.group(1))[:60]
    if not cls:
        m = re.search(r'(crash sig=\d+|crash exit=\d+|driver exited, status -?\d+|no answer within)', info)
        cls = m.group(1) if m else 'unknown'
        m2 = re.search(r'Assertion .* failed', info)
        if m2:
            cls = 'assert'
    frame = None
    for m in re.finditer(r'#\d+ 0x[0-9a-f]+ in (\S+) (\S+)', info):
        fn, loc = m.group(1), m.group(2)
        if 'confuse.c' in loc or 'lexer' in loc:
            frame = fn
            break
    return '%s@%s' % (cls, frame or '?')


# ---------------------------------------------------------------------------
# worker pool

_worker_state = {}


def _worker_init(counter, lock):
    signal.signal(signal.SIGINT, signal.SIG_IGN)
    with lock:
        wid = counter.value
        counter.value += 1
    _worker_state['wid'] = wid
    _worker_state['drivers'] = {}


def worker_id():
    return _worker_state.get('wid', 0)


def get_driver(variant='asan', **kw):
    """the calling worker's driver for a variant (created on first use)"""
    ds = _worker_state.setdefault('drivers', {})
    key = (variant, tuple(sorted(kw.get('extra_env', {}).items())) if kw.get('extra_env') else ())
    d = ds.get(key)
    if d is None:
        d = Driver(variant, wid=worker_id() * 8 + len(ds), **kw)
        ds[key] = d
    return d


def worker_root():
    p = os.path.join(BUILD, 'fx', 'w%d' % worker_id())
    return p


def _call(args):
    fn, shard = args
    # every shard carries the check's deadline as its last element: a shard that has not started when the
    # deadline passes is skipped and reported as not completed (the bound is then not called exhaustive)
    dl = shard[-1] if isinstance(shard, tuple) and shard else shard
    if isinstance(dl, float) and time.time() > dl:
        return {'evaluations': 0, 'complete': False, 'new_states': [], 'skipped': 1}
    try:
        return fn(shard)
    except Exception:
        return {'error': traceback.format_exc()}


def _close_drivers(_):
    for d in _worker_state.get('drivers', {}).values():
        d.close()
    _worker_state['drivers'] = {}
    time.sleep(0.05)
    return None


def run_shards(fn, shards, nproc=None, on_result=None):
    """fn(shard) -> result dict, executed in worker processes; results are passed
    to on_result in completion order."""
    nproc = nproc or min(16, os.cpu_count() or 1)
    if not shards:
        return
    counter = mp.Value('i', 0)
    lock = mp.Lock()
    with mp.Pool(nproc, initializer=_worker_init, initargs=(counter, lock)) as pool:
        for r in pool.imap_unordered(_call, [(fn, s) for s in shards], chunksize=1):
            if isinstance(r, dict) and 'error' in r:
                pool.terminate()
                raise RuntimeError('worker failed:\n' + r['error'])
            if on_result:
                on_result(r)
        pool.map(_close_drivers, range(nproc * 2), chunksize=1)


# ---------------------------------------------------------------------------
# check bookkeeping

class KnownFindings:
    """known_findings.txt:  known: property=<id> match=<regex> <what fails>
                            fixed: property=<id> <commit> <what failed>
    A 'known' matcher is a regular expression searched in 'kind | script'."""

    def __init__(self, path=os.path.join(VERIF, 'known_findings.txt')):
        self.known = []
        try:
            for line in open(path):
                line = line.strip()
                if not line or line.startswith('#'):
                    continue
                m = re.match(r'known:\s+property=(\S+)\s+match=(\S+)\s+(.*)$', line)
                if m:
                    self.known.append((m.group(1), re.compile(m.group(2)), m.group(3)))
        except FileNotFoundError:
            pass

    def match(self, pid, kind, script):
        hay = kind + ' | ' + script.replace('\n', ' ; ')
        for p, rx, what in self.known:
            if p == pid and rx.search(hay):
                return what
        return None


class Check:
    def __init__(self, pid, argv=None):
        self.pid = pid
        self.t0 = time.time()
        self.tier = os.environ.get('VERIF_TIER', 'quick')
        argv = sys.argv[1:] if argv is None else argv
        self.replay = None
        i = 0
        while i < len(argv):
            if argv[i] == '--tier':
                self.tier = argv[i + 1]
                i += 2
            elif argv[i] == '--replay':
                self.replay = argv[i + 1]
                i += 2
            else:
                i += 1
        if self.tier not in ('quick', 'thorough'):
            self.tier = 'quick'
        self.seed = int(os.environ.get('VERIF_SEED', '0') or 0)
        dflt = 100 if self.tier == 'quick' else 900
        self.deadline_s = float(os.environ.get('VERIF_DEADLINE_S', dflt))
        self.deadline = self.t0 + self.deadline_s
        self.violations = []       # dicts
        self.known_hits = {}       # what -> count
        self.kf = KnownFindings()
        self.cov = {'evaluations': 0, 'states': 0, 'transitions': 0, 'traces_validated_against_impl': 0,
                    'distinct_nontrivial': 0, 'samples': [], 'bounds': [], 'exhaustive': True,
                    'worker_restarts': {}, 'unspec_cases': 0}
        self.outcomes = set()
        self.nontrivial = set()
        self.assumptions = []
        if not self.replay:
            # replay files of earlier runs of this check are stale
            d = os.path.join(OUTDIR, 'replays', self.pid)
            if os.path.isdir(d):
                for f in os.listdir(d):
                    if f.endswith('.case'):
                        try:
                            os.unlink(os.path.join(d, f))
                        except OSError:
                            pass
        self.max_violations = int(os.environ.get('VERIF_MAXV', 40))
        self.per_kind = int(os.environ.get('VERIF_PERKIND', 4))
        self.kind_counts = {}

    def time_left(self):
        return self.deadline - time.time()

    def expired(self):
        return time.time() >= self.deadline

    # -- violations
    def add_violation(self, kind, script, expected, observed, bound=''):
        what = self.kf.match(self.pid, kind, script)
        if what is not None:
            self.known_hits[what] = self.known_hits.get(what, 0) + 1
            return False
        self.kind_counts[kind] = self.kind_counts.get(kind, 0) + 1
        if self.kind_counts[kind] <= self.per_kind and len([v for v in self.violations if v]) < self.max_violations:
            self.violations.append({'kind': kind, 'script': script, 'expected': expected,
                                    'observed': observed, 'bound': bound})
        else:
            self.violations.append(None)
        return True

    def merge(self, r):
        """merge a shard result produced by ShardStats.result()"""
        c = self.cov
        c['evaluations'] += r.get('evaluations', 0)
        c['transitions'] += r.get('transitions', 0)
        c['traces_validated_against_impl'] += r.get('validated', 0)
        c['unspec_cases'] += r.get('unspec', 0)
        for k, v in r.get('restarts', {}).items():
            c['worker_restarts'][k] = c['worker_restarts'].get(k, 0) + v
        if len(self.outcomes) < 3000000:
            self.outcomes.update(r.get('outcomes', ()))
        if len(self.nontrivial) < 3000000:
            self.nontrivial.update(r.get('nontrivial', ()))
        c['states'] += r.get('states', 0)
        for s in r.get('samples', []):
            if len(c['samples']) < 12:
                c['samples'].append(s)
        for v in r.get('violations', []):
            self.add_violation(v['kind'], v['script'], v.get('expected', ''), v.get('observed', ''), v.get('bound', ''))

    # -- finishing
    def write_replays(self):
        paths = []
        d = os.path.join(OUTDIR, 'replays', self.pid)
        os.makedirs(d, exist_ok=True)
        for v in self.violations:
            if v is None:
                continue
            h = hashlib.sha1((v['kind'] + v['script']).encode('latin-1')).hexdigest()[:12]
            p = os.path.join(d, h + '.case')
            with open(p, 'w') as f:
                f.write('# property %s\n# kind %s\n# bound %s\n' % (self.pid, v['kind'], v['bound']))
                for l in str(v['expected']).split('\n'):
                    f.write('# expected %s\n' % l)
                for l in str(v['observed']).split('\n'):
                    f.write('# observed %s\n' % l)
                f.write(v['script'] + '\n')
            paths.append(p)
        return paths

    def finish(self, rule, level='model_checking', extra=None):
        c = self.cov
        c['distinct_outcomes'] = len(self.outcomes)
        c['distinct_nontrivial'] = len(self.nontrivial)
        c['rule'] = rule
        if c['states'] == 0:
            c['states'] = len(self.nontrivial)
        if extra:
            c.update(extra)
        c['known_findings_matched'] = dict(self.known_hits)
        c['deadline_s'] = self.deadline_s
        nviol = len(self.violations)
        ev = {'property_id': self.pid, 'tier': self.tier, 'seed': self.seed, 'level': level,
              'coverage': c, 'assumptions': self.assumptions, 'wall_s': round(time.time() - self.t0, 2),
              'violations': nviol}
        os.makedirs(os.path.join(OUTDIR, 'evidence'), exist_ok=True)
        with open(os.path.join(OUTDIR, 'evidence', self.pid + '.json'), 'w') as f:
            json.dump(ev, f, indent=1, default=str)
        for what, n in sorted(self.known_hits.items()):
            print('KNOWN-FINDING: property=%s %s (%d cases)' % (self.pid, what, n))
        print('%s tier=%s evaluations=%d states=%d transitions=%d distinct_outcomes=%d exhaustive=%s wall=%.1fs' % (
            self.pid, self.tier, c['evaluations'], c['states'], c['transitions'], c['distinct_outcomes'],
            c['exhaustive'], time.time() - self.t0))
        for b in c['bounds']:
            print('  bound %s' % json.dumps(b))
        if nviol:
            paths = self.write_replays()
            for v, p in zip([v for v in self.violations if v is not None], paths):
                print('  violation kind=%s' % v['kind'])
                print('VIOLATION property=%s replay=%s' % (self.pid, p))
            if nviol > len(paths):
                print('  (%d further violations not written)' % (nviol - len(paths)))
            for k, n in sorted(self.kind_counts.items()):
                print('  kind %s: %d' % (k, n))
            sys.stdout.flush()
            sys.exit(1)
        sys.stdout.flush()
        sys.exit(0)


class ShardStats:
    """collected inside a worker for one shard"""

    def __init__(self, bound=''):
        self.evaluations = 0
        self.transitions = 0
        self.validated = 0
        self.unspec = 0
        self.states = 0
        self.outcomes = set()
        self.nontrivial = set()
        self.samples = []
        self.violations = []
        self.bound = bound
        self.complete = True
        self.kinds = {}

    def outcome(self, s):
        self.outcomes.add(hash(s) & 0xFFFFFFFFFFFF)

    def nontriv(self, s):
        self.nontrivial.add(hash(s) & 0xFFFFFFFFFFFF)

    def violation(self, kind, script, expected='', observed=''):
        self.kinds[kind] = self.kinds.get(kind, 0) + 1
        if self.kinds[kind] <= 6 and len(self.violations) < 80:
            self.violations.append({'kind': kind, 'script': script, 'expected': expected,
                                    'observed': observed, 'bound': self.bound})

    def result(self, drivers=()):
        restarts = {}
        for d in drivers:
            for k, v in d.restart_reasons.items():
                restarts[k] = restarts.get(k, 0) + v
            d.restart_reasons = {}
        return {'evaluations': self.evaluations, 'transitions': self.transitions, 'validated': self.validated,
                'unspec': self.unspec, 'outcomes': self.outcomes, 'nontrivial': self.nontrivial,
                'samples': self.samples, 'violations': self.violations, 'restarts': restarts,
                'states': self.states, 'complete': self.complete, 'bound': self.bound}


def confirm(case, variant='asan', extra_env=None):
    """re-run one case alone in a fresh process (replay before report)"""
    d = Driver(variant, wid=900000 + os.getpid() % 1000, extra_env=dict(extra_env or {}, VF_UNBUF='1'))
    try:
        if getattr(case, 'meta', None) and isinstance(case.meta, dict):
            for sid, spec in case.meta.get('schemas', {}).items():
                d.define_schema(sid, spec)
            if case.meta.get('root'):
                d.set_root(case.meta['root'])
        return d.run([case])[0]
    finally:
        d.close()


def phase(ck, label, fn, shards, **info):
    """run one bound (a list of shards) to completion or to the deadline; record it"""
    b = dict(info)
    b['phase'] = label
    if ck.expired():
        ck.cov['exhaustive'] = False
        b.update({'completed': False, 'reason': 'deadline reached before this bound was started'})
        ck.cov['bounds'].append(b)
        return False
    agg = {'n': 0, 'complete': True}

    def on(r):
        ck.merge(r)
        agg['n'] += r.get('evaluations', 0)
        agg['complete'] = agg['complete'] and r.get('complete', True)
    t = time.time()
    run_shards(fn, shards, on_result=on)
    b.update({'cases': agg['n'], 'completed': agg['complete'], 'wall_s': round(time.time() - t, 1)})
    ck.cov['bounds'].append(b)
    if not agg['complete']:
        ck.cov['exhaustive'] = False
    return agg['complete']


def replay_file(path, variant='asan'):
    """run the script of a replay file alone in a fresh driver and print what happens"""
    schemas, lines, root = {}, [], None
    for l in open(path):
        l = l.rstrip('\n')
        if l.startswith('#') or not l:
            if l.startswith('# expected') or l.startswith('# kind') or l.startswith('# property'):
                print(l)
            continue
        if l.startswith('schema '):
            _, sid, spec = l.split(' ', 2)
            schemas[sid] = spec
        elif l.startswith('root '):
            root = dec(l.split(' ', 1)[1])
            root = root.decode('latin-1')
        elif l.startswith('variant '):
            variant = l.split()[1]
        else:
            lines.append(l)
    build([variant])
    c = Case(lines, meta={'schemas': schemas, 'root': root})
    r = confirm(c, variant)
    print('status', r.status)
    for l in r.lines:
        print('observed', l)
    if r.status not in ('ok', 'dirty'):
        print(r.info[-3000:])
    return r


def chunks(lst, n):
    for i in range(0, len(lst), n):
        yield lst[i:i + n]
