#!/usr/bin/env python3
"""C15 - comments are transparent; annotations stick to the next option.

Accepted and rejected E1 texts x every token boundary (both ends included) x comment / white-space
forms, one insertion (two in the thorough tier), annotation support off and on.
Oracle: return code and dump equal those of the un-commented text (= the reference model's).  With
annotation support on, a comment placed immediately before the assignment of a scalar or non-empty
list option is that option's annotation: returned by the comment getter, written by print, and read
back by a re-parse of the printed text."""
import sys, os, time, itertools
sys.path.insert(0, os.path.dirname(os.path.abspath(__file__)))
import engine
from engine import Case, enc, dec, ShardStats, get_driver
from model import ACCEPT, REJECT, INCOMPLETE, UNSPEC, CFGF, Opt, Schema, dump_sec
import schemas as S
import reftext

PID = 'C15'
FAM = {s.sid: s for s in S.family_F()}
USE = ['F01', 'F03', 'F05', 'F07', 'F09', 'F13', 'F15', 'F11']
FORMS = [b'#c\n', b'#\n', b'//c\n', b'//\n', b'/*c*/', b'/**/', b'/***/', b'/* a\n b */', b'###x\n', b'\n', b'\t', b'# a b \n', b'/** d **/', b'// /* e\n', b'# x*/y\n',
         b'# c\r\n', b'/*\r\n c\r\n*/', b'#\x0c c \x0b\n',      # CR, FF and VT are white space: trimmed like blanks
         b'#/p\n', b'//#d\n', b'##// b\n', b'//*y\n', b'#"q\n', b"//'r\n",
         b'/* a *\n b */', b'/**\n * d\n */', b'/***\n**/',
         b'# c#\n', b'// d/\n', b'## e ##\n', b'// f //\n',
         b'/* a  \n b */', b'/* a\t\n \n b */']      # the text of a one-line comment may END in the marker as well     # only the marker that opened the comment is dropped; the text may begin with the other one
CM = CFGF['COMMENTS']
BATCH = 300


def words_for(sch):
    return [x.encode('latin-1') for x in S.alphabet_for(sch)]


def e1_words(sch, alpha, N, prefix):
    def rec(words):
        m = reftext.meaning(sch, 0, b' '.join(words))
        yield words, m
        viable = m.verdict == ACCEPT or (m.verdict == REJECT and m.res.verdict == INCOMPLETE and m.lex.status == 'OK')
        if len(words) < N and viable:
            for w in alpha:
                yield from rec(words + [w])
    yield from rec(list(prefix))


def viable_prefix_words(sch, alpha, depth):
    inner, frontier = [], []

    def rec(words):
        if len(words) == depth:
            frontier.append(tuple(words))
            return
        inner.append(tuple(words))
        m = reftext.meaning(sch, 0, b' '.join(words))
        if m.verdict == ACCEPT or (m.verdict == REJECT and m.res.verdict == INCOMPLETE and m.lex.status == 'OK'):
            for w in alpha:
                rec(words + [w])
    rec([])
    return inner, frontier


def with_insertions(words, ins):
    """ins: list of (position, form); position p = before token p (p == len(words): at the end)"""
    parts = []
    for p in range(len(words) + 1):
        for (q, f) in ins:
            if q == p:
                parts.append(f)
        if p < len(words):
            parts.append(words[p])
    return b' '.join(parts)


def run(st, drv, sid, sch, items):
    """items: (base words, text, flags)"""
    cases, metas = [], []
    for words, text, flags in items:
        m = reftext.meaning(sch, flags, text)
        lines = ['init A %s %d' % (sid, flags), 'parse_buf A ' + enc(text), 'dump A 0']
        ann = []
        if flags & CM and m.verdict == ACCEPT:
            last = {}
            for path, c in m.res.annotations:
                last[path] = c
            ann = sorted(last.items())
            for path, c in ann:
                lines.append('get A %s comment 0' % enc(path))
            if ann:
                lines += ['init B %s %d' % (sid, flags), 'roundtrip A B']
                for path, c in ann:
                    lines.append('get B %s comment 0' % enc(path))
        cases.append(Case(lines))
        metas.append((words, text, flags, m, ann))
    results = drv.run(cases)
    for c, r, (words, text, flags, m, ann) in zip(cases, results, metas):
        st.evaluations += 1
        st.transitions += 1
        script = 'schema %s %s\n%s' % (sid, sch.spec(), c.script())
        if r.status in ('crash', 'hang'):
            st.violation('%s:%s' % (r.status, engine.sanitizer_summary(r.info)), script, '', engine.excerpt(r.info))
            continue
        rc = r.first('r parse_buf')
        dump = r.first('dump ')
        st.outcome('%s %s' % (rc, dump))
        if m.verdict == UNSPEC:
            st.unspec += 1
            continue
        st.validated += 1
        label = 'annot-on' if flags & CM else 'annot-off'
        if m.verdict == ACCEPT:
            want = 'dump ' + dump_sec(m.store, 0)
            if rc != 'r parse_buf 0':
                st.violation('comment-changes-acceptance:%s' % label, script, 'r parse_buf 0', (rc or '') + ' ' + ' '.join(r.all('diag ')[:1]))
                continue
            if dump != want:
                st.violation('comment-changes-values:%s' % label, script, want, dump or '')
                continue
            st.nontriv(text)
            if ann:
                gets = r.all('r get ')
                rt = r.first('r roundtrip')
                n = len(ann)
                if len(gets) != 2 * n or rt is None:
                    st.violation('protocol', script, '', r.text()[-300:])
                    continue
                for k, (path, ctext) in enumerate(ann):
                    if gets[k] != 'r get ' + enc(ctext):
                        st.violation('annotation-not-attached', script, '%s annotated with %r' % (path.decode('latin-1'), ctext), gets[k])
                        break
                else:
                    printed = dec(rt.split(' ')[3]) if len(rt.split(' ')) > 3 else b''
                    if not rt.startswith('r roundtrip 0'):
                        if any(b'*/' in ctext for _, ctext in ann):
                            st.violation('annotation-containing-comment-end-breaks-print', script, 'the printed text parses back', rt[:200])
                        else:
                            st.violation('printed-annotation-does-not-parse', script, 'r roundtrip 0', rt[:200])
                        continue
                    for k, (path, ctext) in enumerate(ann):
                        if ctext and ctext not in printed:
                            st.violation('annotation-not-printed', script, repr(ctext), printed.decode('latin-1'))
                            break
                        if gets[n + k] != 'r get ' + enc(ctext):
                            st.violation('annotation-lost-in-roundtrip', script, '%s annotated with %r' % (path.decode('latin-1'), ctext), gets[n + k])
                            break
        else:
            if rc != 'r parse_buf 1':
                st.violation('comment-changes-rejection:%s' % label, script, 'r parse_buf 1 (%s)' % m.why, rc or '')
        if len(st.samples) < 1 and ann and len(words) >= 4:
            st.samples.append({'schema': sid, 'text': text.decode('latin-1'), 'expected_annotations': [(p.decode('latin-1'), c.decode('latin-1')) for p, c in ann]})


def shard(sh):
    sid, N, nins, prefixes, forms, deadline = sh
    sch = FAM[sid]
    drv = get_driver('asan')
    drv.define_schema(sid, sch.spec())
    st = ShardStats('E1 N=%d, %d insertion(s)' % (N, nins))
    alpha = words_for(sch)
    if N >= 100:
        # reduced alphabet, deeper: annotated options inside (nested) sections, after lists, in later instances
        alpha = [n for n in sch.all_names()] + [b'7', b't1', b'=', b'{', b'}']
        N -= 100
    buf = []
    for prefix in prefixes:
        for words, m0 in e1_words(sch, alpha, N, prefix):
            if m0.verdict == UNSPEC:
                continue
            k = len(words)
            if nins == 1:
                combos = [((p, f),) for p in range(k + 1) for f in forms]
            else:
                combos = [((p, f), (q, g)) for p in range(k + 1) for q in range(p, k + 1) for f in forms[:8] for g in forms[:8]]
            for ins in combos:
                text = with_insertions(words, ins)
                for flags in (0, CM):
                    buf.append((words, text, flags))
            if len(buf) >= BATCH:
                run(st, drv, sid, sch, buf)
                buf = []
                if time.time() > deadline:
                    st.complete = False
                    break
        if not st.complete:
            break
    if buf:
        run(st, drv, sid, sch, buf)
    return st.result([drv])


def shard_unknown(sh):
    """comments and white space between any two tokens of UNDECLARED items in a context that skips them (CFGF_IGNORE_UNKNOWN):
    acceptance and values as without the insertion"""
    forms, deadline = sh
    IG = CFGF['IGNORE_UNKNOWN']
    sid = 'F01'
    sch = FAM[sid]
    drv = get_driver('asan')
    drv.define_schema(sid, sch.spec())
    st = ShardStats('undeclared items, IGNORE_UNKNOWN')
    bases = [b'u = 1 i = 7', b'u = { 1 , 2 } i = 7', b'u += 1 i = 7', b'u += { 1 } s = x', b'u ( 1 , 2 ) i = 7', b'u { a = 1 } i = 7', b'u t { a = { 1 } b t { } } i = 7',
             b'i = 7 u = 1', b'u = 1 v t { } s = x', b'u { v { w = 1 } } b = true', b'u = 1 i = ='] 
    buf = []
    for base in bases:
        words = base.split(b' ')
        for p_ in range(len(words) + 1):
            for f in forms:
                text = with_insertions(words, ((p_, f),))
                for flags in (IG, IG | CM):
                    buf.append((words, text, flags))
        if time.time() > deadline:
            st.complete = False
            break
    for ch in engine.chunks(buf, BATCH):
        run(st, drv, sid, sch, ch)
    st.samples.append({'bases': [b.decode() for b in bases], 'forms': len(forms)})
    return st.result([drv])


def main():
    ck = engine.Check(PID)
    if ck.replay:
        engine.replay_file(ck.replay)
        return
    engine.build(['asan'])
    quick = ck.tier == 'quick'
    dl = ck.deadline
    plan = [(4, 1), (3, 2), (5, 1)] if quick else [(5, 1), (4, 2), (6, 1), (5, 2)]      # cheapest first, the deepest bound last
    def run_plan(N, nins, forms=FORMS):
        shards = []
        for sid in USE:
            sch = FAM[sid]
            alpha = words_for(sch)
            inner, frontier = viable_prefix_words(sch, alpha, 2)
            shards.append((sid, 0, nins, inner, forms, dl))
            for ch in engine.chunks(frontier, 3):
                shards.append((sid, N, nins, ch, forms, dl))
        engine.phase(ck, 'E1 N=%d x %d insertion(s) x annotations off/on' % (N, nins), shard, shards, schemas=len(USE), forms=len(forms))
    engine.phase(ck, 'one insertion at every token boundary of texts with undeclared items (assignment, list, append, call, plain / titled / nested section) under CFGF_IGNORE_UNKNOWN x annotations off/on',
                 shard_unknown, [(FORMS, dl)], forms=len(FORMS))
    for N, nins in plan[:-1]:
        run_plan(N, nins)
    DEEPFORMS = [b'/* a\n b */', b'#c\n', b'/*c*/', b'\n', b'# c\r\n']
    Nd = 7 if quick else 9
    shards = []
    for sid in ('F05', 'F07', 'F11', 'F16'):
        sch = FAM[sid]
        alpha = [n for n in sch.all_names()] + [b'7', b't1', b'=', b'{', b'}']
        inner, frontier = viable_prefix_words(sch, alpha, 3)
        shards.append((sid, 0, 1, inner, DEEPFORMS, dl))
        for ch in engine.chunks(frontier, 2):
            shards.append((sid, 100 + Nd, 1, ch, DEEPFORMS, dl))
    engine.phase(ck, 'E1 reduced alphabet N=%d x 1 insertion x annotations off/on (options inside sections)' % Nd, shard, shards, schemas=4, forms=len(DEEPFORMS))
    run_plan(*plan[-1], forms=(FORMS[:18] if quick else FORMS))      # quick: the deepest bound with the first 18 forms
    ck.assumptions = ['an annotation is asserted only for a comment immediately in front of a scalar or non-empty list assignment (braced or one bare '
                      'value); what other comments become is not compared']
    ck.finish('E1 token sequence x insertion position(s) x comment / white-space form x annotation flag; non-trivial = distinct accepted texts')


if __name__ == '__main__':
    main()
