"""apibfs.py - explicit-state breadth-first search over the real API (C09, C07 part 3, C10 states).

A state is the operation history that reaches it, executed on a fresh context; states are
deduplicated on the canonical full dump of the *implementation* (values, MODIFIED, RESET,
annotations).  Every transition (history, op) is executed on the real library and compared with
refstore.
"""
import time, re, copy
import engine
from engine import Case, enc, ShardStats, get_driver
from model import (Opt, Schema, new_store, dump_sec, RefParser, ACCEPT, DM_MOD, DM_RESET, DM_ANNOT, DM_NOSECMOD)
import reftext
import refstore

A1 = Schema('A1', [
    Opt('int', 'i', '', 5), Opt('int', 'il', 'L', [b'1', b'2']), Opt('str', 's', '', b'd'), Opt('str', 'sl', 'L'),
    Opt('bool', 'b', '', False), Opt('float', 'f', '', 1.5), Opt('int', 'si', 'S'), Opt('str', 'ss', 'S'),
    Opt('float', 'fl', 'L', [b'1.5']), Opt('bool', 'bl', 'L'), Opt('str', 'sd', 'L', [b'a', b'b']),
    Opt('sec', 'mt', 'MT', sub=[Opt('int', 'x', '', 1), Opt('int', 'xl', 'L', [b'1'])]),
    Opt('sec', 'sec', '', sub=[Opt('int', 'x', '', 1)]),
    Opt('sec', 'm', 'M', sub=[Opt('int', 'x', '', 1)])])

STARTS = [b'', b'il = {3}', b'mt a { x = 3 } mt b { } m { }', b'i = 9 il += {4} sec { x = 2 } sl = {p, q}',
          b'mt a { } mt b { x = 2 } mt c { x = 3 } m { x = 5 } m { x = 6 } m { x = 7 }']

CMP_MODE = DM_MOD | DM_NOSECMOD
KEY_MODE = DM_MOD | DM_RESET | DM_ANNOT


def ops_alphabet(full=True, nocase=False):
    O = []
    if nocase:
        # a case-insensitive context: names and titles that differ in letter case only name the same thing
        O += [('addtsec', b'mt', b'A'), ('addtsec', b'MT', b'b'), ('rmtsec', b'mt', b'A'), ('rmtsec', b'mt', b'B'), ('rmsec', b'mt=A'),
              ('set', 'int', b'MT=a|X', 8, None), ('set', 'int', b'mt=A|x', 9, None), ('set', 'int', b'IL', 7, 1), ('setmulti', b'Il', [b'3'])]
    # scalar and indexed setters
    for idx in (None, 0, 1, 5):
        O.append(('set', 'int', b'i', 7, idx))
        O.append(('set', 'int', b'il', 7, idx))
    O.append(('set', 'int', b'il', 8, 0))
    O.append(('set', 'int', b'il', 6, 2))
    O.append(('set', 'float', b'fl', 2.5, 1))
    O.append(('addlist', b'fl', 'float', [3.5]))
    O.append(('set', 'bool', b'bl', 1, 0))
    O.append(('setmulti', b'bl', [b'on', b'off']))
    O.append(('set', 'str', b's', b'v', None))
    O.append(('set', 'str', b'sl', b'v', 1))
    O.append(('set', 'str', b'sl', b'w', 0))
    O.append(('set', 'str', b'sd', b'a', 0))       # the text the default already holds at that index
    O.append(('set', 'str', b'sd', b'b', 1))
    O.append(('set', 'str', b's', b'd', None))
    O.append(('set', 'bool', b'b', 1, None))
    O.append(('set', 'float', b'f', 2.5, None))
    O.append(('oset', 'int', b'il', 9, 1))
    O.append(('set', 'int', b'si', 7, None))
    O.append(('set', 'str', b'ss', b'v', None))
    O.append(('set', 'int', b'si', 7, 1))          # index beyond a scalar
    O.append(('set', 'float', b'f', 2.5, 1))       # ... for every kind, by name and on the option handle
    O.append(('set', 'bool', b'b', 1, 1))
    O.append(('set', 'str', b's', b'v', 1))
    O.append(('oset', 'float', b'f', 2.5, 2))
    O.append(('oset', 'bool', b'b', 1, 1))
    O.append(('oset', 'str', b's', b'v', 1))
    O.append(('oset', 'int', b'i', 7, 1))
    # lists
    O.append(('setlist', b'il', 'int', []))
    O.append(('setlist', b'il', 'int', [3]))
    O.append(('setlist', b'il', 'int', [3, 4]))
    O.append(('addlist', b'il', 'int', [3]))
    O.append(('addlist', b'il', 'int', [3, 4]))
    O.append(('addlist', b'il', 'int', []))        # an append of nothing
    O.append(('addlist', b'sl', 'str', [b'a']))
    O.append(('setlist', b'sl', 'str', [b'a', b'b']))
    O.append(('setlist', b'i', 'int', [3]))        # not a list
    O.append(('addlist', b'zz', 'int', [3]))       # unknown name
    # bulk string set
    O.append(('setmulti', b'il', [b'3', b'4']))
    O.append(('setmulti', b'il', [b'3', b'x']))
    O.append(('setmulti', b'il', [b'x']))
    O.append(('setmulti', b'il', []))
    O.append(('setmulti', b'i', [b'9']))
    O.append(('setmulti', b'i', [b'x']))
    O.append(('setmulti', b'sl', [b'm']))
    # sections
    O.append(('addtsec', b'mt', b'a'))
    O.append(('addtsec', b'mt', b'b'))
    O.append(('addtsec', b'mt', b'ab'))            # a title that has another one as its prefix
    O.append(('addtsec', b'i', b'a'))              # not a section
    O.append(('addtsec', b's', b'hello'))
    O.append(('addtsec', b'zz', b'a'))
    O.append(('rmnsec', b'mt', 0))
    O.append(('rmnsec', b'mt', 1))
    O.append(('rmnsec', b'mt', 9))
    O.append(('rmnsec', b'm', 0))
    O.append(('rmnsec', b'i', 0))                  # not a section
    O.append(('rmtsec', b'mt', b'a'))
    O.append(('rmtsec', b'mt', b'b'))
    O.append(('rmtsec', b'mt', b'zz'))
    O.append(('rmtsec', b'm', b'a'))               # no titles
    O.append(('rmsec', b'mt=b'))
    O.append(('rmsec', b'mt=zz'))
    O.append(('rmsec', b'm=0'))
    O.append(('rmsec', b'm=zz'))                   # not an index: nothing is removed
    O.append(('rmsec', b'm=0x'))
    O.append(('set', 'int', b'm=zz|x', 7, None))
    # nested targets
    O.append(('set', 'int', b'sec|x', 7, None))
    O.append(('set', 'int', b'mt=a|x', 7, None))
    O.append(('set', 'int', b'mt=a|xl', 7, 1))
    O.append(('addlist', b'mt=b|xl', 'int', [3]))
    O.append(('set', 'int', b'm|x', 7, None))
    # wrong type, illegal index, unknown name
    O.append(('set', 'int', b's', 7, None))
    O.append(('set', 'str', b'i', b'v', None))
    O.append(('set', 'bool', b'f', 1, None))
    O.append(('set', 'float', b'il', 2.5, 0))
    O.append(('set', 'int', b'sec', 7, None))
    O.append(('set', 'int', b'zz', 7, None))
    O.append(('set', 'int', b'sec|zz', 7, None))
    # annotation, set-from-text
    O.append(('setcomment', b'i', b'c'))
    O.append(('setcomment', b'il', b'c'))
    O.append(('setcomment', b'sl', b'c'))          # a list without a default: not in its pristine state from the start
    O.append(('setcomment', b'sd', b'c'))
    O.append(('setopt', b'il', b'6'))
    O.append(('setopt', b'i', b'6'))
    O.append(('setopt', b'il', b'x'))
    O.append(('setopt', b'i', b'x'))
    # a string got from the library handed straight back to a setter (the argument aliases stored memory)
    O.append(('setfrom', b's', 0, b's', 0))
    O.append(('setfrom', b'sd', 0, b'sd', 1))
    O.append(('setfrom', b'sd', 2, b'sd', 0))
    O.append(('setfrom', b'sl', 0, b'sl', 0))
    O.append(('setfrom', b's', 0, b'sd', 0))
    O.append(('setoptfrom', b's', 0))              # set-from-text with the option's own string
    O.append(('setoptfrom', b'sd', 1))
    O.append(('setlistfrom', b'sd', [1, 0]))       # the list reordered / cut down to its own elements
    O.append(('setlistfrom', b'sd', [1]))
    O.append(('setlistfrom', b'sl', [0, 0]))
    O.append(('setopt', b'si', b'6'))              # 'simple' options: the value lives in the caller's variable, the flag on the option
    O.append(('setopt', b'ss', b'w'))
    O.append(('setopt', b'si', b'x'))
    O.append(('setmulti', b'si', [b'9']))
    O.append(('setmulti', b'ss', [b'u']))
    O.append(('setmulti', b'si', [b'x']))          # refused: the caller's variable keeps what it holds
    O.append(('setmulti', b'si', [b'4', b'x']))
    return O


def too_big(sec, cap_list=4, cap_sec=4):
    for o in sec.opts:
        if o.decl.kind == 'sec':
            if len(o.values) > cap_sec:
                return True
            if any(too_big(s, cap_list, cap_sec) for s in o.values):
                return True
        elif len(o.values) > cap_list:
            return True
    return False


def model_state(schema, flags, start, history):
    m = reftext.meaning(schema, flags, start)
    st = m.store
    # a parse leaves RESET set on options it did not touch; the parser model tracks that
    for op in history:
        refstore.apply(st, op)
    return st


def wildcard_equal(expected, observed):
    if '?' not in expected:
        return expected == observed
    rx = re.escape(expected).replace(r'\?', 'M?')
    return re.fullmatch(rx, observed or '') is not None


def shard_bfs(shard):
    (sid, spec_schema, flags, start, histories, ops, hygiene, setup_lines, deadline) = shard
    drv = get_driver('asan')
    drv.define_schema(sid, spec_schema.spec())
    st = ShardStats('api-bfs')
    new_states = []
    for hist in histories:
        if time.time() > deadline:
            st.complete = False
            break
        base = model_state(spec_schema, flags, start, hist)
        cases, metas = [], []
        for op in ops:
            after = copy.deepcopy(base)
            rc = refstore.apply(after, op)
            if rc is not None and too_big(after):
                continue
            lines = ['init A %s %d' % (sid, flags)] + list(setup_lines)
            if start:
                lines.append('parse_buf A ' + enc(start))
            for h in hist:
                lines.append(refstore.driver_line(h)[0])
            lines.append('note transition')
            dl, prefix = refstore.driver_line(op)
            lines.append(dl)
            lines.append('dump A %d' % (CMP_MODE | 32))
            lines.append('dump A %d' % KEY_MODE)
            if hygiene:
                lines.append('print A')
                lines.append('free A')
            cases.append(Case(lines))
            metas.append((op, rc, after, prefix))
        results = drv.run(cases)
        for c, r, (op, rc, after, prefix) in zip(cases, results, metas):
            st.evaluations += 1
            st.transitions += 1
            script = 'schema %s %s\n%s' % (sid, spec_schema.spec(), c.script())
            if r.status in ('crash', 'hang'):
                st.violation('%s:%s' % (r.status, engine.sanitizer_summary(r.info)), script, 'a return value', engine.excerpt(r.info))
                continue
            rl = [l for l in r.lines if l.startswith(prefix + ' ')]
            dumps = r.all('dump ')
            if not rl or len(dumps) < 2:
                st.violation('protocol', script, '', r.text()[-400:])
                continue
            got_rc = rl[-1].split(' ')[2]
            st.outcome('%s %s' % (got_rc, dumps[-2]))
            if hygiene:
                hyg = r.first('hyg ') or ''
                if not hyg.endswith('CLEAN'):
                    leaks = r.all('leak ')
                    site = leaks[0].split(' ')[1].split(':')[0] if leaks else 'resources'
                    st.violation('hygiene:%s' % site, script, 'CLEAN after cfg_free', hyg + '\n' + '\n'.join(leaks))
            if rc is None:
                st.unspec += 1
                continue
            st.validated += 1
            exp = 'dump ' + dump_sec(after, CMP_MODE)
            if not hygiene:
                if got_rc != '%d' % rc:
                    st.violation('rc:%s' % op[0], script, '%s %d' % (prefix, rc), rl[-1])
                    continue
                if not wildcard_equal(exp, dumps[-2]):
                    st.violation('state:%s' % op[0], script, exp, dumps[-2])
                    continue
            st.nontriv(dumps[-1])
            new_states.append((hash(dumps[-1]) & 0xFFFFFFFFFFFFFFF, list(hist) + [op]))
            if len(st.samples) < 1 and len(hist) >= 1 and rc in (0, 1):
                st.samples.append({'start_text': start.decode('latin-1'), 'history': [repr(h) for h in hist], 'op': repr(op),
                                   'expected_rc': rc, 'expected_dump': exp})
    res = st.result([drv])
    res['new_states'] = new_states
    return res


def run_bfs(ck, schema, flags, starts, ops, depth, hygiene=False, setup_lines=(), label='api'):
    """level-synchronous BFS; returns (states, transitions)"""
    seen = set()
    total_states = 0
    for start in starts:
        frontier = [[]]
        for d in range(1, depth + 1):
            if ck.expired():
                ck.cov['exhaustive'] = False
                ck.cov['bounds'].append({'phase': '%s start=%r depth %d' % (label, start.decode('latin-1'), d), 'completed': False,
                                         'reason': 'deadline reached before this level was started'})
                break
            shards = []
            per = max(1, min(40, len(frontier) // 64 + 1))
            for ch in engine.chunks(frontier, per):
                shards.append((schema.sid, schema, flags, start, ch, ops, hygiene, setup_lines, ck.deadline))
            nxt = []
            info = {'n': 0, 'complete': True}

            def on(r):
                ck.merge(r)
                info['n'] += r['evaluations']
                info['complete'] = info['complete'] and r['complete']
                for key, hist in r['new_states']:
                    k = (start, key)
                    if k not in seen:
                        seen.add(k)
                        nxt.append(hist)
            t = time.time()
            engine.run_shards(shard_bfs, shards, on_result=on)
            ck.cov['bounds'].append({'phase': '%s start=%r depth %d' % (label, start.decode('latin-1'), d), 'frontier': len(frontier),
                                     'transitions': info['n'], 'new_states': len(nxt), 'completed': info['complete'],
                                     'wall_s': round(time.time() - t, 1)})
            if not info['complete']:
                ck.cov['exhaustive'] = False
                break
            frontier = sorted(nxt, key=lambda h: repr(h))
            if not frontier:
                break
    ck.cov['states'] = ck.cov.get('states', 0) + len(seen)
    return len(seen)
