#!/usr/bin/env python3
"""C16 - a context owns a private copy of its schema and shares nothing.

(a) every schema of the families with the declaration arrays and all their strings poisoned and freed
    right after cfg_init: E1 workloads plus workloads that create >= 3 instances of (nested) multi
    sections afterwards; every observation must equal the run with the declarations alive, ASan silent,
    and the declarations themselves are never written by the library (checksum).
(b) two contexts from the same live declarations, and two instances of one multi section: all
    interleavings of two operation streams of <= 3 operations; every context / instance must end up
    exactly as in its solo run."""
import sys, os, time, itertools
sys.path.insert(0, os.path.dirname(os.path.abspath(__file__)))
import engine
from engine import Case, enc, ShardStats, get_driver
from model import ACCEPT, INCOMPLETE, UNSPEC, CFGF, Opt, Schema
import schemas as S
import trace

PID = 'C16'
FAM = {s.sid: s for s in S.family_F() + S.family_one_option()}
FAM['D1'] = Schema('D1', [
    Opt('sec', 'a', 'M', sub=[Opt('sec', 'b', 'MT', sub=[Opt('str', 's', 'A', b'deflt'), Opt('str', 'sl', 'LA', [b'p', b'q']), Opt('int', 'n', '', 3),
                                                         Opt('sec', 'c', 'M', sub=[Opt('str', 'z', 'A', b'zz'), Opt('float', 'f', 'L', [b'1.5'])])]),
                              Opt('str', 't', '', b'tt')]),
    Opt('str', 'top', 'A', b'topdef'), Opt('int', 'il', 'L', [b'1', b'2']), Opt('sec', 'kv', 'KM', sub=[Opt('str', 'k0', '', b'v0')])])
WORK = {
    'D1': [b'a { b x { c { } c { } c { z = 1 } } b y { c { f += {2} } } b z { } } a { b x { } } a { } kv { n1 = v } kv { n2 = w } kv { }',
           b'a { } a { } a { b q { c { } c { } c { } } t = u } il += {3} top = 9'],
}


def deep_workloads(sch):
    """texts that create three instances of every multi section of the schema (depth first)"""
    def inst(o, k):
        if not o.has('M'):
            return b'%s { %s }' % (o.name, body(o.sub))
        if o.has('T'):
            return b' '.join(b'%s t%d { %s }' % (o.name, j, body(o.sub)) for j in range(k))
        return b' '.join(b'%s { %s }' % (o.name, body(o.sub)) for j in range(k))

    def body(opts):
        return b' '.join(inst(o, 3) for o in opts if o.kind == 'sec' and not o.has('K'))
    secs = [o for o in sch.opts if o.kind == 'sec' and not o.has('K')]
    if not secs:
        return []
    return [b' '.join(inst(o, 3) for o in secs)] + repeated_titles(sch)


def repeated_titles(sch):
    """an instance "created later" may carry a title that was there before: for every titled multi section (at any depth) one text
    that gives an instance everything (values, appended lists, nested instances) and then the same title again with less"""
    VAL = {'int': b'42', 'float': b'4.5', 'bool': b'true', 'str': b'changed'}

    def fill(opts):
        out = []
        for c in opts:
            if c.kind in VAL and not c.has('S') and not c.has('D'):
                out.append(b'%s %s %s' % (c.name, b'+=' if c.is_list else b'=', (b'{' + VAL[c.kind] + b'}') if c.is_list else VAL[c.kind]))
            elif c.kind == 'sec' and not c.has('K'):
                if c.has('T'):
                    out.append(b'%s n1 { %s } %s n2 { }' % (c.name, fill(c.sub), c.name))
                else:
                    out.append(b'%s { %s }' % (c.name, fill(c.sub)))
            elif c.kind == 'sec':
                out.append(b'%s%s { key1 = v }' % (c.name, b' n1' if c.has('T') else b''))
        return b' '.join(out)

    def appends(opts):
        return b' '.join(b'%s += {%s}' % (c.name, VAL[c.kind]) for c in opts if c.kind in VAL and c.is_list and not c.has('S') and not c.has('D'))

    texts = []

    def walk(opts, wrap):
        for o in opts:
            if o.kind != 'sec' or o.has('K'):
                continue
            if o.has('M') and o.has('T') and not o.has('U'):
                texts.append(wrap(b'%s t0 { %s } %s t1 { } %s t0 { %s }' % (o.name, fill(o.sub), o.name, o.name, appends(o.sub))))
                texts.append(wrap(b'%s t0 { %s } %s t0 { }' % (o.name, fill(o.sub), o.name)))
            head = b'%s%s { ' % (o.name, b' w' if o.has('T') else b'')
            walk(o.sub, lambda inner, wrap=wrap, head=head: wrap(head + inner + b' }'))
    walk(sch.opts, lambda t: t)
    return texts


def pair(sid, flags, text, pre=()):
    sch = FAM[sid]
    alive = Case(['schema DF ' + sch.spec(), 'init A DF %d' % flags] + list(pre) + ['parse_buf A ' + enc(text), 'dump A 0', 'dump A 7', 'print A', 'free A'])
    gone = Case(['schema DF ' + sch.spec(), 'init A DF %d' % flags, 'declfree DF'] + list(pre) + ['parse_buf A ' + enc(text), 'dump A 0', 'dump A 7', 'print A', 'free A'])
    return alive, gone


def judge_pair(st, sid, alive, gone, ra, rg, label, exp0=None):
    st.evaluations += 2
    st.transitions += 2
    st.validated += 1
    script = gone.script()
    for r, c in ((ra, alive), (rg, gone)):
        if r.status in ('crash', 'hang'):
            st.violation('%s:%s' % (r.status, engine.sanitizer_summary(r.info)), c.script(), 'no access to the caller\'s declarations after cfg_init', engine.excerpt(r.info))
            return
    oa = [l for l in ra.lines if not l.startswith('hyg ')]
    og = [l for l in rg.lines if not l.startswith('hyg ')]
    st.outcome('\n'.join(og))
    st.nontriv('\n'.join(og))
    if oa != og:
        st.violation('differs-once-declarations-are-gone:%s' % label, script, '\n'.join(oa)[:1500], '\n'.join(og)[:1500])
        return
    if exp0 is not None and (rg.first('r parse_buf') != 'r parse_buf 0' or rg.first('dump ') != exp0):
        # every instance, whenever and under whatever title it is created, holds the declared sub-options and defaults plus what
        # its own body says (reference: the parser model)
        st.violation('instance-not-built-from-the-declarations:%s' % label, script, exp0, (rg.first('r parse_buf') or '') + ' ' + (rg.first('dump ') or ''))
        return
    for r, c in ((ra, alive), (rg, gone)):
        hyg = r.first('hyg ') or ''
        if ' declmod=0 ' not in hyg:
            st.violation('declarations-written-by-library', c.script(), 'declmod=0', hyg)
            return
        if not hyg.endswith('CLEAN'):
            st.violation('unclean:%s' % label, c.script(), 'CLEAN', hyg + ' ' + ' '.join(r.all('leak ')))
            return


def shard_a(sh):
    sid, N, prefixes, deadline = sh
    sch = FAM[sid]
    drv = get_driver('asan')
    st = ShardStats('declarations freed, E1 N=%d' % N)
    alpha = S.alphabet_for(sch)
    texts = []
    if N == 0:
        texts = [t for t in deep_workloads(sch)] + WORK.get(sid, [])
    else:
        for prefix in prefixes:
            for node in trace.e1(sch, 0, alpha, N, prefix):
                if node.verdict in (ACCEPT, INCOMPLETE) and node.words:
                    texts.append(trace.text_of(node.words).encode('latin-1'))
    import reftext
    from model import dump_sec
    for ch in engine.chunks(texts, 100):
        cases, exps = [], []
        for t in ch:
            for flags in (0, CFGF['COMMENTS'] | CFGF['NOCASE']):
                # the deep workloads run with a search path set: every instance borrows the context's list, none of them owns it
                a, g = pair(sid, flags, t, pre=(('addpath A ' + enc(b'/nonexistent/a'), 'addpath A ' + enc(b'/nonexistent/b')) if N == 0 else ()))
                cases += [a, g]
                exp0 = None
                if N == 0:
                    m = reftext.meaning(sch, flags, t)
                    if m.verdict == ACCEPT:
                        exp0 = 'dump ' + dump_sec(m.store, 0)
                    elif m.verdict != UNSPEC:
                        raise RuntimeError('machinery: workload %r of %s is %s for the model (%s)' % (t, sid, m.verdict, m.why))
                exps.append(exp0)
        res = drv.run(cases)
        for k in range(0, len(cases), 2):
            judge_pair(st, sid, cases[k], cases[k + 1], res[k], res[k + 1], 'deep' if N == 0 else 'E1', exps[k // 2])
        if time.time() > deadline:
            st.complete = False
            break
    if texts and not st.samples:
        st.samples.append({'schema': sid, 'workload_after_declfree': texts[0].decode('latin-1')[:200]})
    return st.result([drv])


# ---- (b) interleavings
B1 = Schema('B1', [Opt('int', 'i', 'A', 5), Opt('int', 'il', 'L', [b'1', b'2']), Opt('str', 's', '', b'd'),      # A: the declaration carries an annotation
                   Opt('sec', 'mt', 'MT', sub=[Opt('int', 'x', '', 1)]), Opt('sec', 'kv', 'K', sub=[Opt('str', 'k0', '', b'v0')]),
                   Opt('sec', 'm', 'M', sub=[Opt('int', 'x', 'A', 1), Opt('str', 'y', '', b'yy'), Opt('int', 'xl', 'L', [b'1'])]),
                   Opt('sec', 'km', 'KM', sub=[Opt('str', 'k0', '', b'v0')]),
                   Opt('sec', 'mu', 'MTU', sub=[Opt('int', 'x', '', 1), Opt('int', 'xl', 'L', [b'1'])])])      # titles must be unique: a second one is refused


def ctx_ops(c):
    """operation menu on context c (a whole context)"""
    return [
        ['cb_fail 1', 'parse_buf %s %s' % (c, enc(b'i = 7 il += {3}'))],
        ['cb_fail 1', 'parse_buf %s %s' % (c, enc(b's = new mt a { x = 2 }'))],
        ['setint %s %s 9' % (c, enc(b'i'))],
        ['addlist %s %s int 1 4' % (c, enc(b'il'))],
        ['setcomment %s %s %s' % (c, enc(b's'), enc(b'note'))],
        ['setcomment %s %s %s' % (c, enc(b'i'), enc(b'other'))],       # replaces an annotation that came with the declaration
        ['set_vf %s %s 1' % (c, enc(b'i'))],
        ['set_vf %s %s 1' % (c, enc(b'mt|x'))],
        ['cb_fail 1', 'parse_buf %s %s' % (c, enc(b'kv { key = val }'))],
        ['addtsec %s %s %s' % (c, enc(b'mt'), enc(b'b'))],
        ['set_pf %s/i 1' % c],
        ['set_pf_name %s %s 1' % (c, enc(b's'))],
        ['cb_fail 1', 'parse_buf %s %s' % (c, enc(b'il += {9} s = "abc'))],     # a text refused inside a string: whatever it leaves behind is not the other context's business
        ['cb_fail 1', 'parse_buf %s %s' % (c, enc(b'i = 8 /* abc'))],
        ['cb_fail 1', 'parse_buf %s %s' % (c, enc(b'mu a { x = 2 } mu a { }'))],        # an instance that is built and then refused (the title exists)
        ['cb_fail 1', 'parse_buf %s %s' % (c, enc(b'm { }')), 'set_pf_name %s %s 1' % (c, enc(b'm|x')), 'set_vf %s %s 1' % (c, enc(b'm|y'))],
    ]


def inst_ops(c, k):
    """operation menu on instance k of the multi section m / km of context c"""
    r = '%s/m.%d' % (c, k)
    return [
        ['setint %s %s 9' % (r, enc(b'x'))],
        ['setstr %s %s %s' % (r, enc(b'y'), enc(b'changed'))],
        ['addlist %s %s int 1 4' % (r, enc(b'xl'))],
        ['setcomment %s %s %s' % (r, enc(b'y'), enc(b'note'))],
        ['setcomment %s %s %s' % (r, enc(b'x'), enc(b'other'))],
        ['set_vf %s %s 1' % (r, enc(b'x'))],
        ['cb_fail 1', 'parse_buf %s %s' % (r, enc(b'x = 3 xl += {8}'))],
        ['cb_fail 1', 'parse_buf %s/km.%d %s' % (c, k, enc(b'newkey = v'))],
        ['set_pf %s/x 1' % r],
        ['set_pf_name %s %s 1' % (c, enc(b'm|x' if k == 0 else b'm=%d|x' % k))],           # a callback given by path lands in that instance only
        ['set_pf_name %s %s 1' % (r, enc(b'xl'))],
    ]


def observe(c, what):
    if what == 'ctx':
        return ['dump %s 7' % c, 'print %s' % c]
    k = what
    return ['dump %s/m.%d 7' % (c, k), 'dump %s/km.%d 7' % (c, k), 'print %s/m.%d' % (c, k)]


def interleavings(n1, n2):
    for pos in itertools.combinations(range(n1 + n2), n1):
        order = []
        a = b = 0
        for k in range(n1 + n2):
            if k in pos:
                order.append((0, a))
                a += 1
            else:
                order.append((1, b))
                b += 1
        yield order


def shard_b(sh):
    mode, pairs, deadline = sh
    drv = get_driver('asan')
    drv.define_schema('B1', B1.spec())
    st = ShardStats('interleavings (%s)' % mode)
    if mode == 'contexts':
        # both contexts have a search path of their own: every section instance borrows its context's list
        setup = ['init A B1 0', 'init B B1 0', 'addpath A ' + enc(b'/nonexistent/a'), 'addpath B ' + enc(b'/nonexistent/b')]
        menus = (ctx_ops('A'), ctx_ops('B'))
        obs = (observe('A', 'ctx'), observe('B', 'ctx'))
        solo_setup = (['init A B1 0', 'addpath A ' + enc(b'/nonexistent/a')], ['init B B1 0', 'addpath B ' + enc(b'/nonexistent/b')])
    else:
        setup = ['init A B1 0', 'parse_buf A ' + enc(b'm { } m { } km { } km { }')]
        menus = (inst_ops('A', 0), inst_ops('A', 1))
        obs = (observe('A', 0), observe('A', 1))
        solo_setup = (setup, setup)

    def strip(lines):
        return [l for l in lines if l.startswith('dump ') or l.startswith('out ') or l.startswith('r parse_buf')]

    # an instance created after its siblings were worked on must be a pristine copy of the declared template
    fresh_ops = ['note a later instance', 'cb_fail 0', 'parse_buf A ' + enc(b'm { } km { }'), 'dump A/m.2 7', 'dump A/km.2 7', 'print A/m.2']
    pristine = None
    if mode != 'contexts':
        r0 = drv.run([Case(list(setup) + fresh_ops)])[0]
        pristine = [l for l in r0.lines if l.startswith('dump ') or l.startswith('out ')][-3:]

    for (s1, s2) in pairs:
        if time.time() > deadline:
            st.complete = False
            break
        streams = ([menus[0][k] for k in s1], [menus[1][k] for k in s2])
        # solo runs
        solos = []
        cases = []
        for side in (0, 1):
            lines = list(solo_setup[side])
            for op in streams[side]:
                lines += op
            lines += ['note observe'] + obs[side]
            cases.append(Case(lines))
        orders = list(interleavings(len(s1), len(s2)))
        for order in orders:
            lines = list(setup)
            for (side, k) in order:
                lines += streams[side][k]
            lines += ['note observe'] + obs[0] + ['note observe'] + obs[1]
            if pristine is not None:
                lines += fresh_ops
            cases.append(Case(lines))
        res = drv.run(cases)
        bad = False
        for c, r in zip(cases, res):
            if r.status in ('crash', 'hang'):
                st.violation('%s:%s' % (r.status, engine.sanitizer_summary(r.info)), 'schema B1 %s\n%s' % (B1.spec(), c.script()), '', engine.excerpt(r.info))
                bad = True
        st.evaluations += len(cases)
        st.transitions += len(cases)
        if bad:
            continue
        # observations = lines after the last setup answer; parse results of the streams are part of them
        def tail(r, side, both):
            dumps = [l for l in r.lines if l.startswith('dump ') or l.startswith('out ')]
            if both and pristine is not None:
                dumps = dumps[:-3]
            n = len(obs[0])
            if not both:
                return dumps[-n:]
            return dumps[-2 * n:-n] if side == 0 else dumps[-n:]
        want = (tail(res[0], 0, False), tail(res[1], 1, False))
        for order, c, r in zip(orders, cases[2:], res[2:]):
            st.validated += 1
            got = (tail(r, 0, True), tail(r, 1, True))
            st.outcome('\n'.join(got[0] + got[1]))
            st.nontriv('%s|%s|%s' % (mode, s1, s2))
            if pristine is not None:
                later = [l for l in r.lines if l.startswith('dump ') or l.startswith('out ')][-3:]
                if later != pristine:
                    st.violation('later-instance-inherits-sibling-state', 'schema B1 %s\n%s' % (B1.spec(), c.script()), '\n'.join(pristine), '\n'.join(later))
                    continue
            for side in (0, 1):
                if got[side] != want[side]:
                    st.violation('%s-influenced-by-the-other:%s' % ('context' if mode == 'contexts' else 'instance', mode),
                                 'schema B1 %s\n%s' % (B1.spec(), c.script()), '\n'.join(want[side]), '\n'.join(got[side]))
                    break
        if len(st.samples) < 1:
            st.samples.append({'mode': mode, 'stream_1': [' ; '.join(o) for o in streams[0]], 'stream_2': [' ; '.join(o) for o in streams[1]],
                               'interleavings': len(orders)})
    return st.result([drv])


# ---- (c) instances created after every earlier one was removed
def shard_c(sh):
    """every section instance the schema creates at cfg_init (and those of a first parse) is removed through the API; the
    workload then creates instances again: each must get the declared sub-options and defaults (reference: the parser model
    on a store whose section options are empty)"""
    sid, N, prefixes, deadline = sh
    import reftext
    from model import new_store, dump_sec
    sch = FAM[sid]
    drv = get_driver('asan')
    drv.define_schema(sid, sch.spec())
    st = ShardStats('instances created after removals')
    secs = [o for o in sch.opts if o.kind == 'sec']
    alpha = S.alphabet_for(sch)
    texts = []
    if N == 0:
        texts = [t for t in deep_workloads(sch)] + WORK.get(sid, [])
    else:
        for prefix in prefixes:
            for node in trace.e1(sch, 0, alpha, N, prefix):
                if node.verdict == ACCEPT and node.words and any(it[3] == 'sec' for it in node.res.items):
                    texts.append(trace.text_of(node.words).encode('latin-1'))
    rm = []
    for o in secs:
        if not o.has('M') and not o.has('N'):
            rm.append('rmnsec A %s 0' % enc(o.name))
    for ch in engine.chunks(texts, 200):
        cases, exps = [], []
        for t in ch:
            store = new_store(sch, 0)
            for o in store.opts:
                if o.decl.kind == 'sec':
                    o.values = []
            m = reftext.meaning(sch, 0, t, store=store)
            if m.verdict != ACCEPT:
                continue
            cases.append(Case(['init A %s 0' % sid] + rm + ['parse_buf A ' + enc(t), 'dump A 0', 'print A', 'free A']))
            exps.append('dump ' + dump_sec(m.store, 0))
        for c, r, exp in zip(cases, drv.run(cases), exps):
            st.evaluations += 1
            st.transitions += 1
            st.validated += 1
            script = 'schema %s %s\n%s' % (sid, sch.spec(), c.script())
            if r.status in ('crash', 'hang'):
                st.violation('%s:%s' % (r.status, engine.sanitizer_summary(r.info)), script, '', engine.excerpt(r.info))
                continue
            got = r.first('dump ') or ''
            st.outcome(got)
            st.nontriv(got)
            if r.first('r parse_buf') != 'r parse_buf 0' or got != exp:
                st.violation('instance-created-after-removal-lacks-defaults', script, exp, (r.first('r parse_buf') or '') + ' ' + got)
            elif not (r.first('hyg ') or '').endswith('CLEAN'):
                st.violation('unclean:after-removal', script, 'CLEAN', r.first('hyg ') or '')
        if time.time() > deadline:
            st.complete = False
            break
    if texts and not st.samples:
        st.samples.append({'schema': sid, 'removed_first': rm, 'workload': texts[0].decode('latin-1')[:200]})
    return st.result([drv])


# ---- (d) callbacks registered for a section type while instances exist
def shard_d(sh):
    """a validation callback registered by a path through a multi section ('m|x': the path names no instance) - whatever
    instances exist at that moment, (1) an instance created afterwards behaves the same, (2) the existing siblings are
    treated alike.  Callbacks are observed by behaviour: the first invocation is told to refuse."""
    deadline = sh
    drv = get_driver('asan')
    drv.define_schema('B1', B1.spec())
    st = ShardStats('registration by path with instances present')
    regs = [('set_vf', b'm|x', b'm', b'x = 3 y = q', b''), ('set_vf2', b'm|x', b'm', b'x = 3 y = q', b''), ('set_vf', b'm|y', b'm', b'x = 3 y = q', b''),
            ('set_vf', b'm|xl', b'm', b'xl += {4} x = 2', b''), ('set_vf', b'mt|x', b'mt', b'x = 3', b' t%d'), ('set_vf2', b'mt|x', b'mt', b'x = 3', b' t%d')]
    priors = [('none', 0, []), ('one', 1, []), ('two', 2, []), ('three', 3, []), ('one-removed', 1, [0]), ('two-first-removed', 2, [0]),
              ('one-worked-on', 1, 'work')]
    for (op, path, sec, probe, title) in regs:
        for regval in ('1', '-'):
            ref = None
            for (pname, n, removed) in priors:
                lines = ['init A B1 0']
                if regval == '-':
                    lines.append('%s A %s 1' % (op, enc(path)))           # registered first, so that clearing it later is a change
                for k in range(n):
                    lines += ['cb_fail 0', 'parse_buf A ' + enc(sec + (title % k if title else b'') + b' { }')]
                live = n
                if removed == 'work':
                    lines += ['cb_fail 0', 'parse_buf A/%s.0 %s' % (sec.decode(), enc(probe))]
                else:
                    for k in removed:
                        lines.append('rmnsec A %s %d' % (enc(sec), k))
                        live -= 1
                lines += ['%s A %s %s' % (op, enc(path), regval), 'note probes', 'cb_fail 0',
                          'parse_buf A ' + enc(sec + (title % 9 if title else b'') + b' { }')]
                for k in list(range(live)) + [live]:
                    if op == 'set_vf2':       # the pre-set callback is consulted by the setters only: told to veto
                        lines += ['note sibling %d' % k, 'w_mode 1', 'setint A/%s.%d %s 3' % (sec.decode(), k, enc(b'x'))]
                    else:
                        lines += ['note sibling %d' % k, 'cb_fail 1', 'parse_buf A/%s.%d %s' % (sec.decode(), k, enc(probe))]
                c = Case(lines)
                r = drv.run([c])[0]
                st.evaluations += 1
                st.transitions += 1
                st.validated += 1
                script = 'schema B1 %s\n%s' % (B1.spec(), c.script())
                if r.status in ('crash', 'hang'):
                    st.violation('%s:%s' % (r.status, engine.sanitizer_summary(r.info)), script, '', engine.excerpt(r.info))
                    continue
                # observations of the probes: everything after the answer to the registration, cut per sibling at the parse answers
                k0 = max(i for i, l in enumerate(r.lines) if l.startswith('r ' + op))
                rest = [l for l in r.lines[k0 + 1:] if not l.startswith('hyg ') and not l.startswith('leak ')]
                per, cur = [], []
                for l in rest:
                    cur.append(l)
                    if l.startswith('r parse_buf') or l.startswith('r setint'):
                        per.append(cur)
                        cur = []
                per = per[1:]          # the first answer is the creation of the later instance
                if len(per) != live + 1:
                    st.violation('protocol', script, '%d probes' % (live + 1), r.text()[-300:])
                    continue
                later = '\n'.join(per[-1])
                st.outcome(later)
                st.nontriv('%s %s %s %s' % (op, path, regval, pname))
                if ref is None:
                    ref = later
                    if regval == '1' and 'r parse_buf 1' not in later and 'r setint -1' not in later:
                        st.violation('registered-callback-not-on-later-instance', script, 'the probe is refused by the callback', later)
                elif later != ref:
                    st.violation('later-instance-depends-on-existing-siblings:%s' % pname, script, ref, later)
                if removed != 'work' and any('\n'.join(x) != '\n'.join(per[0]) for x in per[:-1]):
                    st.violation('registration-by-type-singles-out-a-sibling:%s' % pname, script, '\n'.join(per[0]), ' / '.join('\n'.join(x) for x in per[:-1]))
        if time.time() > deadline:
            st.complete = False
            break
    st.samples.append({'registration': 'cfg_set_validate_func(cfg, "m|x", cb) with 0, 1, 2, 3 instances of m present, some removed',
                       'compared': 'behaviour of an instance created afterwards; behaviour of the existing siblings among themselves'})
    return st.result([drv])


def main():
    ck = engine.Check(PID)
    if ck.replay:
        engine.replay_file(ck.replay)
        return
    engine.build(['asan'])
    quick = ck.tier == 'quick'
    dl = ck.deadline
    sids = sorted(FAM)
    engine.phase(ck, '(a) declarations freed: deep multi-section workloads, all schemas', shard_a, [(sid, 0, [()], dl) for sid in sids], schemas=len(sids))
    engine.phase(ck, '(d) validation callbacks registered by a path through a multi section while 0..3 instances exist', shard_d, [dl])
    N = 6 if quick else 7
    shards = []
    for sid in [s.sid for s in S.family_F()] + ['D1']:
        sch = FAM[sid]
        alpha = S.alphabet_for(sch)
        inner, frontier = trace.viable_prefixes(sch, 0, alpha, 1)
        for ch in engine.chunks(frontier, 3):
            shards.append((sid, N, ch, dl))
    engine.phase(ck, '(a) declarations freed: E1 N=%d workloads' % N, shard_a, shards)
    with_sec = [sid for sid in sids if any(o.kind == 'sec' and not o.has('K') for o in FAM[sid].opts)]
    shards = [(sid, 0, [()], dl) for sid in with_sec]
    for sid in with_sec:
        sch = FAM[sid]
        inner, frontier = trace.viable_prefixes(sch, 0, S.alphabet_for(sch), 1)
        for ch in engine.chunks(frontier, 4):
            shards.append((sid, 7 if quick else 8, ch, dl))
    engine.phase(ck, '(c) every initial section instance removed through the API, then instances created again by deep workloads and E1 N=%d texts' % (7 if quick else 8),
                 shard_c, shards, schemas=len(with_sec))
    L = 2 if quick else 3
    for mode, nops in (('contexts', len(ctx_ops('A'))), ('instances', len(inst_ops('A', 0)))):
        seqs = []
        for n in range(1, L + 1):
            seqs += list(itertools.permutations(range(nops), n)) if n <= 2 else list(itertools.product(range(nops), repeat=n))
        pairs = [(a, b) for a in seqs for b in seqs if len(a) + len(b) <= (4 if quick else 6)]
        engine.phase(ck, '(b) all interleavings of two streams of <= %d operations on two %s' % (L, mode), shard_b,
                     [(mode, list(ch), dl) for ch in engine.chunks(pairs, 40)], stream_pairs=len(pairs))
    ck.assumptions = ['"simple" options are left out of (b): their storage is the caller\'s variable by documented design',
                      'the declarations are poisoned with 0xDD and freed, so any later access is an ASan report']
    ck.finish('(a) schema x workload, run twice (declarations alive / poisoned and freed) and compared; (b) pairs of operation streams x all '
              'interleavings, each side compared with its solo run; non-trivial = distinct observation sets / stream pairs')


if __name__ == '__main__':
    main()
