#!/usr/bin/env python3
"""C17 - file names resolve deterministically via search path and tilde.

Search-path sequences over a pool of directories (existing, missing, duplicated, tilde-prefixed) x all
placements of same-named regular files / directories x all name forms, through cfg_searchpath,
cfg_tilde_expand, cfg_parse and include(); heap fill byte in {0x00, 0xBE, 0xFF} (and MSan in the
thorough tier).  Oracle: refresolve below."""
import sys, os, time, itertools
sys.path.insert(0, os.path.dirname(os.path.abspath(__file__)))
import engine
from engine import Case, enc, ShardStats, get_driver
from model import Opt, Schema

PID = 'C17'
R1 = Schema('R1', [Opt('int', 'i', '', 0), Opt('func', 'include', '', None, 'i'),
                   Opt('sec', 'sec', '', sub=[Opt('func', 'include', '', None, 'i'), Opt('int', 'i', '', 0)])])      # include from inside a section that exists since cfg_init
POOL = ['d1', 'd2', 'nodir', 'd1', '~/d3', '~alice/d4', 'd1/sub']          # index 3 = d1 again; d1/sub: a directory whose name begins with another one's
DIRS = ['d1', 'd2', 'h/me/d3', 'h/alice/d4']
MARK = {'d1': 1, 'd2': 2, 'h/me/d3': 3, 'h/alice/d4': 4}
STATES = ['absent', 'file', 'dir']
NAMES = ['f.conf', 'sub/f.conf', '@/abs.conf', '@/nope.conf', '@/d1', '~', '~/f.conf', '~alice', '~alice/f.conf', '~nouser/f.conf', '', 'd1/f.conf',
         '~alice/', '~al', '~alicex/f.conf', './f.conf', '~alice/a/b.conf', '~/a/b/c', '~alice//f.conf', '~me/f.conf', '~alice/d4/f.conf',
         'sub/../f.conf', 'x..y.conf', '../d1/f.conf', 'c:x.conf', '\\x.conf']      # the last two: relative names like any other on this platform


class World:
    def __init__(self, root, layout):
        self.root = root
        self.fs = {}            # absolute path -> ('file', marker) | ('dir',)
        for d in ['', 'd1', 'd2', 'h', 'h/me', 'h/alice', 'h/me/d3', 'h/alice/d4', 'd1/sub']:
            self.fs[self.p(d)] = ('dir',)
        for d, stt in zip(DIRS, layout):
            if stt == 'file':
                self.fs[self.p(d + '/f.conf')] = ('file', MARK[d])
            elif stt == 'dir':
                self.fs[self.p(d + '/f.conf')] = ('dir',)
            elif stt in ('fifo', 'devlink', 'dangling'):
                self.fs[self.p(d + '/f.conf')] = (stt,)        # there, but neither a regular file nor a directory: never a match
            elif stt == 'filelink':
                self.fs[self.p(d + '/f.conf')] = ('file', 21)  # a symbolic link to a regular file IS that file (abs.conf, marker 21)
                self.links = getattr(self, 'links', []) + [self.p(d + '/f.conf')]
        if layout[0] == 'file':
            self.fs[self.p('d1/sub/f.conf')] = ('file', 11)
        self.fs[self.p('abs.conf')] = ('file', 21)
        self.fs[self.p('d2/x..y.conf')] = ('file', 22)       # a name that merely contains two dots
        # a mirror of the fixture's own absolute path below a search directory: an absolute name that is missing must not be found there
        mirror = 'd2' + self.root
        acc = 'd2'
        for comp in [c for c in self.root.split('/') if c]:
            acc += '/' + comp
            self.fs[self.p(acc)] = ('dir',)
        self.fs[self.p(mirror + '/nope.conf')] = ('file', 25)
        self.fs[self.p(mirror + '/d1')] = ('file', 26)
        self.fs[self.p('d2/c:x.conf')] = ('file', 23)        # a name with a colon after its first letter, one that begins with a backslash
        self.fs[self.p('d2/\\x.conf')] = ('file', 24)
        self.fs[self.p('h/me/f.conf')] = ('file', 31)
        self.fs[self.p('h/alice/f.conf')] = ('file', 32)
        self.pw = {'me': self.p('h/me'), 'alice': self.p('h/alice')}
        self.me = 'me'

    def p(self, rel):
        return self.root + ('/' + rel if rel else '')

    def name(self, n):
        return n.replace('@', self.root)

    def setup_lines(self):
        l = ['wipe']
        for path, v in sorted(self.fs.items()):
            if path == self.root:
                continue
            if v[0] == 'dir':
                l.append('mkdir ' + enc(path))
        links = getattr(self, 'links', [])
        for path, v in sorted(self.fs.items()):
            if v[0] == 'file' and path not in links:
                l.append('mkfile %s %s' % (enc(path), enc('i = %d\n' % v[1])))
        for path, v in sorted(self.fs.items()):
            if path in links:
                l.append('symlink %s %s' % (enc(self.p('abs.conf')), enc(path)))
            elif v[0] == 'fifo':
                l.append('mkfifo ' + enc(path))
            elif v[0] == 'devlink':
                l.append('symlink %s %s' % (enc('/dev/null'), enc(path)))
            elif v[0] == 'dangling':
                l.append('symlink %s %s' % (enc(self.p('nowhere')), enc(path)))
        l += ['passwd %s %s' % (enc('me'), enc(self.pw['me'])), 'passwd %s %s' % (enc('alice'), enc(self.pw['alice'])), 'me ' + enc('me')]
        return l

    # ---- refresolve
    def tilde(self, name):
        if not name.startswith('~'):
            return name
        if len(name) == 1 or name[1] == '/':
            return self.pw[self.me] + name[1:]
        slash = name.find('/')
        user = name[1:] if slash < 0 else name[1:slash]
        rest = '' if slash < 0 else name[slash:]
        if user in self.pw:
            return self.pw[user] + rest
        return name

    def walk(self, path):
        """the entry a path leads to, component by component as the file system does ('.' stays, '..' goes up, every
        intermediate component must be an existing directory); None if it leads nowhere"""
        ap = path if path.startswith('/') else self.p(path)
        if not ap.startswith(self.root):
            return None
        cur = self.root
        for comp in [c for c in ap[len(self.root):].split('/') if c != '']:
            if self.fs.get(cur, ('x',))[0] != 'dir':
                return None
            if comp == '.':
                continue
            if comp == '..':
                if cur == self.root:
                    return None        # leaves the fixture: nothing the cases rely on
                cur = cur.rsplit('/', 1)[0]
                continue
            cur = cur + '/' + comp
        return cur if cur in self.fs else None

    def isfile(self, path):
        # paths relative to the fixture root (the process's working directory)
        ap = path if path.startswith('/') else self.p(path)
        if ap.endswith('/') and len(ap) > 1:
            return False
        w = self.walk(path)
        return w is not None and self.fs[w][0] == 'file'

    def marker(self, path):
        return self.fs[self.walk(path)][1]

    def searchpath(self, dirs, name):
        """dirs: expanded directories in the order they were added"""
        if name.startswith('/'):
            return name if self.isfile(name) else None
        for d in dirs:
            cand = d + '/' + name
            if self.isfile(cand):
                return cand
        return None


def build_case(world, seq, fill, parse_names):
    lines = world.setup_lines() + ['fill %s' % ('-' if fill is None else '%d' % fill), 'init A R1 0']
    dirs = []
    for k in seq:
        written = POOL[k] if POOL[k].startswith('~') else world.p(POOL[k])
        lines.append('addpath A ' + enc(written))
        dirs.append(world.tilde(written))
    exp = []
    for n in NAMES:
        nm = world.name(n)
        lines.append('tilde ' + enc(nm))
        exp.append(('tilde', nm, 'r tilde ' + enc(world.tilde(nm))))
        if dirs:
            lines.append('searchpath A ' + enc(nm))
            r = world.searchpath(dirs, nm)
            exp.append(('searchpath', nm, 'r searchpath ' + enc(r)))
    for n in parse_names:
        nm = world.name(n)
        unspec = bool(dirs) and nm.startswith('~')      # tilde names while a search path is set: not specified
        if dirs:
            r = world.searchpath(dirs, nm)
        else:
            t = world.tilde(nm)
            r = t if (t != '' and world.isfile(t)) else None
        for via in ('parse', 'include', 'include-in-section'):
            lines.append('setint A %s 0' % enc('i'))
            if via == 'include-in-section':
                if '"' in nm or '\\' in nm:
                    continue
                lines[-1] = 'setint A %s 0' % enc('sec|i')
                lines.append('parse_buf A ' + enc('sec { include("%s") }' % nm))
                want_rc = 'r parse_buf %d' % (0 if r else 1)
                lines.append('get A %s int 0' % enc('sec|i'))
                want_val = 'r get %d' % (world.marker(r) if r else 0)
                exp.append(('include', nm, 'SAME-AS-PARSE' if unspec else (want_rc, want_val)))
                continue
            if via == 'parse':
                lines.append('parse A ' + enc(nm))
                want_rc = 'r parse %d' % (0 if r else -1)
            else:
                if '"' in nm or '\\' in nm:
                    continue
                lines.append('parse_buf A ' + enc('include("%s")' % nm))
                want_rc = 'r parse_buf %d' % (0 if r else 1)
            lines.append('get A %s int 0' % enc('i'))
            want_val = 'r get %d' % (world.marker(r) if r else 0)
            exp.append((via, nm, 'SAME-AS-PARSE' if unspec else (want_rc, want_val)))
    return Case(lines), exp, dirs


def judge(st, case, res, exp, root, label):
    st.evaluations += 1
    script = 'schema R1 %s\nroot %s\n%s' % (R1.spec(), enc(root), case.script())
    if res.status in ('crash', 'hang'):
        st.violation('%s:%s' % (res.status, engine.sanitizer_summary(res.info)), script, 'resolution without touching uninitialised / foreign memory',
                     engine.excerpt(res.info))
        return
    lines = [l for l in res.lines if l.startswith('r tilde') or l.startswith('r searchpath') or l.startswith('r parse') or l.startswith('r get')]
    k = 0
    last_parse = None
    for (kind, nm, want) in exp:
        st.transitions += 1
        if kind in ('tilde', 'searchpath'):
            got = lines[k] if k < len(lines) else 'none'
            k += 1
            st.validated += 1
            st.outcome(got)
            if got != want:
                st.violation('%s:%s' % (kind, label), script, '%s  (name %r)' % (want, nm), got)
                return
            st.nontriv('%s %s %s' % (kind, nm, want))
        else:
            got = tuple(lines[k:k + 2])
            k += 2
            st.outcome(' '.join(got))
            if want == 'SAME-AS-PARSE':
                # what a tilde name means while a search path is set is not specified - but "top-level parse and include use
                # the same resolution": found / not found and the file reached must agree
                norm = (len(got) == 2 and got[0].endswith(' 0'), got[1] if len(got) == 2 else None)
                if kind == 'parse':
                    last_parse = (nm, norm, got)
                    st.unspec += 1
                elif last_parse is not None and last_parse[0] == nm:
                    st.validated += 1
                    if norm != last_parse[1]:
                        st.violation('include-resolves-differently-from-parse:%s' % label, script, 'as cfg_parse: %s  (name %r)' % (' '.join(last_parse[2]), nm), ' '.join(got))
                        return
                continue
            st.validated += 1
            if got != want:
                st.violation('%s-resolution:%s' % (kind, label), script, '%s %s  (name %r)' % (want[0], want[1], nm), ' '.join(got))
                return
    hyg = res.first('hyg ') or ''
    if not hyg.endswith('CLEAN'):
        st.violation('unclean:%s' % label, script, 'CLEAN', hyg + ' ' + ' '.join(res.all('leak ')))


def shard(sh):
    seqs, layouts, fills, variant, deadline = sh
    drv = get_driver(variant)
    drv.define_schema('R1', R1.spec())
    root = engine.worker_root() + '-c17' + ('m' if variant == 'msan' else '')
    if drv.rootdir != root:
        drv.set_root(root)
    st = ShardStats('search-path sequences x layouts')
    for seq in seqs:
        for layout in layouts:
            world = World(root, layout)
            cases, exps = [], []
            for fill in fills:
                c, exp, dirs = build_case(world, seq, fill, NAMES[:10] + NAMES[11:12] + NAMES[15:16] + NAMES[19:26])
                cases.append(c)
                exps.append(exp)
            for c, e, r, fill in zip(cases, exps, drv.run(cases), fills):
                judge(st, c, r, e, root, 'fill=%s' % fill)
            if len(st.samples) < 1 and len(seq) == 2:
                st.samples.append({'searchpath_added_in_order': [POOL[k] for k in seq], 'f.conf_in_d1_d2_d3_d4': list(layout),
                                   'names': NAMES, 'fill_bytes': list(fills)})
        if time.time() > deadline:
            st.complete = False
            break
    return st.result([drv])


def main():
    ck = engine.Check(PID)
    if ck.replay:
        engine.replay_file(ck.replay)
        return
    quick = ck.tier == 'quick'
    engine.build(['asan'] if quick else ['asan', 'msan'])
    dl = ck.deadline
    layouts = list(itertools.product(STATES, repeat=4))
    L = 3 if quick else 4
    def seq_phase(n):
        seqs = list(itertools.product(range(len(POOL)), repeat=n))
        shards = [([s], layouts[k::3], [0x00, 0xBE, 0xFF], 'asan', dl) for s in seqs for k in range(3)]
        engine.phase(ck, 'search-path sequences of length %d x 81 layouts x %d names x 3 fill bytes' % (n, len(NAMES)), shard, shards, sequences=len(seqs))
    for n in range(0, 3):
        seq_phase(n)
    # entries that are there but are neither regular files nor directories (a FIFO, a link to a device, a dangling link) and links
    # to regular files: one of them in one directory, the others absent or holding the regular file
    special = []
    for pos in range(4):
        for kind in ('fifo', 'devlink', 'dangling', 'filelink'):
            for rest in itertools.product(['absent', 'file'], repeat=3):
                lay = list(rest)
                lay.insert(pos, kind)
                special.append(tuple(lay))
    # (with a search path set: without one a name is opened as it stands, and opening a FIFO nobody writes to waits for ever)
    seqs = [s for n in range(1, 3) for s in itertools.product(range(len(POOL)), repeat=n)]
    shards = [([s], special[k::2], [0xBE], 'asan', dl) for s in seqs for k in range(2)]
    engine.phase(ck, 'search-path sequences of length 1..2 x %d layouts with a FIFO / device link / dangling link / link to a regular file' % len(special),
                 shard, shards, sequences=len(seqs))
    for n in range(3, L + 1):
        seq_phase(n)        # the longest sequences last: everything above has run when the deadline cuts them short
    if not quick:
        seqs = list(itertools.product(range(len(POOL)), repeat=1)) + [()]
        shards = [([s], layouts[::9], [None], 'msan', dl) for s in seqs]
        engine.phase(ck, 'MSan pass over the tilde / search-path lookups', shard, shards)
    ck.assumptions = ['passwd database behind a seam (me, alice; anything else unknown); files live under /verif/build/fx',
                      'a tilde name while a search path is set, and cfg_searchpath() with an empty list, are not specified and not compared']
    ck.finish('search-path sequence x layout of f.conf in four directories (absent / file with marker / directory) x name form x API x heap fill byte; '
              'non-trivial = distinct (API, name, expected answer)')


if __name__ == '__main__':
    main()
