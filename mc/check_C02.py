#!/usr/bin/env python3
"""C02 - no input text can corrupt memory, hang or kill the host process.

(a) all byte strings up to a length bound over an alphabet derived from the generated
    scanner's equivalence classes (driver-side product enumeration, 'sweep'),
(b) the E1 token enumeration of C01 under all context-flag sets,
(c) pathological shape families with sizes up to 10^4 (10^5 thorough) and the buffer boundaries,
(d) the same texts through every source (buffer, stream, file, include) and odd targets.
Oracle: no signal / sanitizer report / exit, return code in {0,1} (or -1 for file errors), nothing on
stdout, the context stays usable (dump, print, parse again, free).
"""
import sys, os, time, json, itertools
sys.path.insert(0, os.path.dirname(os.path.abspath(__file__)))
import engine
from engine import Case, enc, ShardStats, get_driver, BUILD
from model import ACCEPT, REJECT, INCOMPLETE, UNSPEC, CFGF, Opt, Schema
import schemas as S
import trace

PID = 'C02'
KS = Schema('KS', [
    Opt('int', 'a', 'L', [b'1']), Opt('str', 'b', '', b'q'),
    Opt('sec', 'e', 'MT', sub=[Opt('int', 'n', '', 1)]),
    Opt('func', 'f', '', None, 'u'), Opt('bool', 't', '', False), Opt('float', 'v', '', 1.5),
    Opt('sec', 'x', '', sub=[Opt('str', 'r', 'L', [b'a'])]),
    Opt('ptr', 'z', 'L', None, 'pf'), Opt('sec', 'c', 'K', sub=[]), Opt('sec', 'k2', 'K', sub=[Opt('str', 'd0', '', b'v'), Opt('int', 'd1', '', 1)]),
    Opt('func', 'include', '', None, 'i')])
FLAGSETS = [0, CFGF['COMMENTS'], CFGF['IGNORE_UNKNOWN'], CFGF['NOCASE'],
            CFGF['COMMENTS'] | CFGF['IGNORE_UNKNOWN'] | CFGF['NOCASE']]
HAND = [b' ', b'\n', b'\r', b'"', b'#', b'$', b"'", b'(', b')', b'*', b'+', b',', b'/', b'=', b'\\', b'{', b'}',
        b'0', b'3', b'7', b'8', b'c', b'a', b'b', b'e', b'f', b'n', b'r', b't', b'v', b'x', b':', b'-', b'z', b'\x80', b'\xff', b'\t']
REDUCED = [b'"', b"'", b'\\', b'\n', b'/', b'*', b'#', b'$', b'{', b'}', b'a', b'=']
SCHEMAS = {s.sid: s for s in S.family_F()}
SCHEMAS['KS'] = KS


def byte_alphabet(with_nul=False):
    """hand list + one representative of every scanner equivalence class it misses"""
    ec = json.load(open(os.path.join(BUILD, 'asan', 'yy_ec.json')))['classes']
    alpha = list(HAND)
    have = set(a[0] for a in alpha if len(a) == 1)
    added = []
    for cls, members in sorted(ec.items(), key=lambda kv: int(kv[0])):
        if not any(m in have for m in members):
            rep = [m for m in members if m != 0]
            if rep:
                alpha.append(bytes([rep[0]]))
                have.add(rep[0])
                added.append(rep[0])
    if with_nul:
        alpha.append(b'\0')
    return alpha, len(ec), added


# ---------------------------------------------------------------------------
# (a) sweep

def parse_anom(line):
    f = {}
    parts = line.split(' ')
    f['idx'] = parts[1]
    for p in parts[2:]:
        if '=' in p:
            k, v = p.split('=', 1)
            f[k] = v
    return f


def shard_sweep(shard):
    flags, mode, alpha, length, prefix, deadline = shard
    variant = 'asan'
    if '@' in mode:
        mode, variant = mode.split('@')
    drv = get_driver(variant)
    drv.define_schema('KS', KS.spec())
    st = ShardStats('bytes len=%d%s' % (length, '' if variant == 'asan' else ' (%s)' % variant))
    prog = os.path.join(BUILD, 'err', 'progress.%d' % os.getpid())
    resume = '-'
    symtoks = ' '.join(enc(a) for a in alpha)
    guard = 0
    while True:
        guard += 1
        if guard > 2000:
            st.complete = False
            break
        if not drv.p:
            drv.start()
        cmd = 'sweep KS %d %s %d %s %s %d %s -- %s\n' % (flags, mode, length, prog, resume, len(prefix),
                                                         ' '.join(str(i) for i in prefix), symtoks)
        drv._write(cmd.encode('latin-1'))
        status = None
        while True:
            line = drv._readline(time.time() + 120)
            if line is None or line == 'TIMEOUT':
                status = 'dead' if line is None else 'hang'
                break
            if line.startswith('anom '):
                f = parse_anom(line)
                text = engine.dec(f['text'])
                script = 'schema KS %s\nnote sweep flags=%d mode=%s\ninit A KS %d\n%s A %s\nprint A\nparse_buf A :\nfree A' % (
                    KS.spec(), flags, mode, flags, 'parse_fp' if mode == 'fp' else 'parse_buf', enc(text))
                probs = []
                if f['rc'] not in ('0', '1'):
                    probs.append('rc=%s' % f['rc'])
                if f['rc2'] != '0':
                    probs.append('context unusable afterwards (empty parse returned %s)' % f['rc2'])
                if f['stdout'] != '0':
                    probs.append('stdout-write')
                lx = f['lex'].split(',')
                if f['foreign'] != '0' or f['ptr'].split(',')[1] != '0':
                    probs.append('bad-release')
                for pr in probs:
                    st.violation(pr.split(' ')[0], script, 'clean parse', line[:300])
            elif line.startswith('swept '):
                f = dict(p.split('=') for p in line.split(' ')[1:-1])
                st.evaluations += int(f['n'])
                st.validated += int(f['n'])
                st.transitions += int(f['n'])
                st.outcome('rc0' if int(f['rc0']) else '')
                st.outcome('rc1' if int(f['rc1']) else '')
                st.nontriv('%d|%s|%s' % (flags, prefix, f['hash']))
                status = line.split(' ')[-1]
                break
            elif line == 'drverror':
                raise RuntimeError('sweep: driver error ' + drv.stderr_text()[-1000:])
        try:
            cur = open(prog).read().split('\0')[0]
        except OSError:
            cur = ''
        if status == 'DONE':
            break
        if status in ('dead', 'hang'):
            info = drv.stderr_text()[-5000:]
            idx = [int(x) for x in cur.split(',')] if cur else []
            text = b''.join(alpha[i] for i in idx)
            script = 'schema KS %s\nnote sweep flags=%d mode=%s\ninit A KS %d\n%s A %s\nprint A\nparse_buf A :\nfree A' % (
                KS.spec(), flags, mode, flags, 'parse_fp' if mode == 'fp' else 'parse_buf', enc(text))
            if 'libexit' in info or True:
                st.violation('%s:%s' % ('crash' if status == 'dead' else 'hang', engine.sanitizer_summary(info)), script,
                             'clean parse', info[-1500:])
            st.evaluations += 1
        drv._restart('sweep-' + status.lower())
        if not cur:
            st.complete = False
            break
        resume = cur
        if time.time() > deadline:
            st.complete = False
            break
    if len(st.samples) < 1:
        st.samples.append({'sweep': 'all strings of length %d with prefix %r over %d symbols' % (length, [alpha[i] for i in prefix], len(alpha)),
                           'flags': flags, 'source': mode})
    return st.result([drv])


# ---------------------------------------------------------------------------
# (b) E1 robustness, (c) shapes, (d) sources share one judge

def robust_case(sid, flags, text, probe, via='parse_buf', pre=(), fork=False, horizon=0, quiet=False, path=False):
    lines = list(pre) + ['init A %s %d' % (sid, flags)]
    if path:
        # a search path is set: every section borrows the pointer, whoever frees a section must not free the list
        lines += ['addpath A ' + enc(b'/nonexistent/a'), 'addpath A ' + enc(b'/nonexistent/b')]
    if quiet:
        lines.append('cb_quiet 1')
    lines.append('%s A %s' % (via, enc(text)))
    lines += ['stdoutcheck', 'dump A 7', 'print A']
    if probe:
        lines.append('parse_buf A ' + enc(probe[0]))
        lines.append('get A %s int 0' % enc(probe[1]))
    lines.append('free A')
    return Case(lines, fork=fork, horizon=horizon)


def judge_robust(st, sid, case, res, probe, file_ok=False):
    st.evaluations += 1
    st.validated += 1
    script = 'schema %s %s\n%s' % (sid, SCHEMAS[sid].spec(), case.script())
    if res.status in ('crash', 'hang'):
        st.violation('%s:%s' % (res.status, engine.sanitizer_summary(res.info)), script, 'a return code', engine.excerpt(res.info))
        return
    lines = res.lines
    rcs = [l for l in lines if l.startswith('r parse')]
    ok_rc = ('0', '1', '-1') if file_ok else ('0', '1')
    st.outcome(rcs[0] if rcs else 'none')
    if not rcs or rcs[0].split(' ')[2] not in ok_rc:
        st.violation('bad-rc', script, 'rc in %s' % (ok_rc,), rcs[0] if rcs else 'none')
        return
    so = res.first('r stdout')
    hyg = res.first('hyg ') or ''
    if (so and so != 'r stdout 0') or ' stdout=0 ' not in hyg:
        st.violation('stdout-write', script, 'nothing on stdout', (so or '') + ' ' + (res.first('stdoutdata') or ''))
        return
    out = res.first('out ')
    if not out or not out.startswith('out 0 '):
        st.violation('print-failed', script, 'out 0 ...', out or 'none')
        return
    if probe:
        if len(rcs) < 2 or rcs[1] != 'r parse_buf 0':
            st.violation('probe-parse-failed', script, 'r parse_buf 0', rcs[1] if len(rcs) > 1 else 'none')
            return
        g = res.first('r get ')
        if g != 'r get 7':
            st.violation('probe-parse-ineffective', script, 'r get 7', g or 'none')
            return
    fr = res.first('r free')
    if fr != 'r free 0':
        st.violation('free-failed', script, 'r free 0', fr or 'none')
    import re
    m = re.search(r'ptr=(\d+),(\d+) foreign=(\d+) dclose=(\d+)', hyg)
    if not m or m.group(2) != '0' or m.group(3) != '0' or m.group(4) != '0':
        st.violation('bad-release', script, 'no release of foreign / dead values, no double close', hyg)


def probe_for(sch):
    for o in sch.opts:
        if o.kind == 'int' and not o.is_list and not o.has('S') and not o.has('D') and 'p' not in o.cbs:
            return (o.name + b' = 7', o.name)
    return None


def shard_e1(shard):
    sid, flags, N, prefixes, deadline = shard
    sch = SCHEMAS[sid]
    drv = get_driver('asan')
    drv.define_schema(sid, sch.spec())
    st = ShardStats('E1 N=%d all flag sets' % N)
    alpha = S.alphabet_for(sch)
    probe = probe_for(sch)
    buf = []

    def flush():
        cases = [robust_case(sid, flags, trace.text_of(n.words), probe, quiet=True, path=True) for n in buf]
        for c, r, n in zip(cases, drv.run(cases), buf):
            judge_robust(st, sid, c, r, probe)
            st.transitions += 1
            st.nontriv(' '.join(n.words) if n.res.items else '')
        del buf[:]
    for prefix in prefixes:
        for node in trace.e1(sch, flags & ~CFGF['IGNORE_UNKNOWN'], alpha, N, prefix):
            buf.append(node)
            if len(buf) >= 300:
                flush()
                if time.time() > deadline:
                    st.complete = False
                    break
        if not st.complete:
            break
    if buf:
        flush()
    if not st.samples:
        st.samples.append({'schema': sid, 'flags': flags, 'prefixes': [' '.join(p) for p in prefixes[:3]]})
    return st.result([drv])


PATHALPHA = [b'e', b'x', b'n', b'|', b'=', b"'", b'\\', b'0', b't']


def dq_literal(b):
    return b'"' + b.replace(b'\\', b'\\\\').replace(b'"', b'\\"') + b'"'


def shard_pathnames(shard):
    """the parser looks every option name up through the by-path machinery: a quoted name may be any path string"""
    firsts, L, deadline = shard
    drv = get_driver('asan')
    drv.define_schema('KS', KS.spec())
    st = ShardStats('quoted option names that are path strings')
    buf = []

    def flush():
        cases = [robust_case('KS', fl, t, None, quiet=True) for (fl, t) in buf]
        for c, r in zip(cases, drv.run(cases)):
            judge_robust(st, 'KS', c, r, None)
            st.transitions += 1
        del buf[:]
    for first in firsts:
        for n in range(0, L):
            for tail in itertools.product(PATHALPHA, repeat=n):
                name = dq_literal(first + b''.join(tail))
                for fl in (0, CFGF['IGNORE_UNKNOWN']):
                    buf.append((fl, name + b' = 1'))
                    buf.append((fl, b'e t { } e u { } ' + name + b' { }'))
                    buf.append((fl, b'e t { ' + name + b' += {1} }'))
            if len(buf) >= 600:
                flush()
                if time.time() > deadline:
                    st.complete = False
                    break
        if not st.complete:
            break
    if buf:
        flush()
    st.nontriv(b''.join(firsts).decode('latin-1'))
    if not st.samples:
        st.samples.append({'first_symbols': [f.decode('latin-1') for f in firsts], 'max_length': L, 'forms': ['NAME = 1', 'e t { } e u { } NAME { }', 'e t { NAME += {1} }']})
    return st.result([drv])


# ---- (e) "under any schema and flags": every flag subset on every option kind, meaningful or not
ODD_FLAGS = 'LMTUNDXKCS'      # S: a 'simple' option (CFG_SIMPLE_*: the value lives in a variable of the caller, of exactly the C type's size) - value kinds only
ODD_KINDS = ('int', 'float', 'bool', 'str', 'sec', 'func', 'ptr')
ODD_TEXTS = [b'', b'o = 1', b'o = a', b'o = on', b'o = 2.5', b'o = true o = off o = 3', b'o = {1, 2}', b'o = {a}', b'o += 1', b'o += {1}', b'o = {}', b'o += {}', b'o = 1 o = 2', b'o = {1} o += {2}',
             b'o { }', b'o { x = 1 }', b'o { x = 1 } o { x = 2 }', b'o t { }', b'o t { x = 1 }', b'o t { x = 1 } o t { x = 2 }', b'o t { } o u { }',
             b'o t { } o T { }', b'o { k = v }', b'o t { k = v k2 = w }', b'o { o { } }', b'o t u { }', b'o = { }  o { }', b'o(1)', b'o()', b'o(a, b)',
             b'o', b'o =', b'o {', b'o t {', b'o (', b'o +=', b'O = 1', b'O { x = 1 }', b'o|x = 1', b'o=t|x = 1', b'o=0|x = 1', b'o { } o=0|x = 2',
             b'o t { } o=t|x = 2', b'o = 1 z = 2', b'o { x = 1 } z = 2', b'z = 1 o = 1', b'# c\no = 1', b'# c\no { x = 1 }', b'# c\no t { }']


def odd_schema(kind, mask):
    fl = ''.join(f for k, f in enumerate(ODD_FLAGS) if mask >> k & 1)
    if kind == 'sec':
        o = Opt('sec', 'o', fl, sub=[Opt('int', 'x', '', 1), Opt('str', 'xl', 'L', [b'a'])])
    elif kind == 'func':
        o = Opt('func', 'o', fl, None, 'u')
    elif kind == 'ptr':
        o = Opt('ptr', 'o', fl, None, 'pf')
    else:
        d = {'int': 7, 'float': 1.5, 'bool': True, 'str': b'd'}[kind]
        dl = {'int': [b'7', b'8'], 'float': [b'1.5'], 'bool': [b'true'], 'str': [b'd', b'e']}[kind]
        o = Opt(kind, 'o', fl, dl if 'L' in fl else d)
    return Schema('ODD', [o, Opt('int', 'z', '', 3)])       # one id, redefined for every combination


def shard_odd(shard):
    items, deadline = shard
    drv = get_driver('asan')
    st = ShardStats('odd flag combinations')
    for (kind, mask) in items:
        sch = odd_schema(kind, mask)
        SCHEMAS[sch.sid] = sch
        drv.define_schema(sch.sid, sch.spec())
        cases = []
        for fl in (0, CFGF['COMMENTS'], CFGF['IGNORE_UNKNOWN'], CFGF['NOCASE']):
            for t in ODD_TEXTS:
                cases.append(robust_case(sch.sid, fl, t, (b'z = 7', b'z'), quiet=True))
        for c, r in zip(cases, drv.run(cases)):
            judge_robust(st, sch.sid, c, r, (b'z = 7', b'z'))
            st.transitions += 1
        st.nontriv('%s/%d' % (kind, mask))
        if kind == 'sec' and not mask >> 9 & 1:
            # the same with the section NAMED like the top-level context ("root"), at the top level and nested in a titled section
            # whose instances get replaced
            fl = ''.join(f for k_, f in enumerate(ODD_FLAGS) if mask >> k_ & 1)
            sch = Schema('ODD', [Opt('sec', 'root', fl, sub=[Opt('int', 'x', '', 1), Opt('str', 'xl', 'L', [b'a'])]),
                                 Opt('sec', 'w', 'MT', sub=[Opt('sec', 'root', fl.replace('T', ''), sub=[Opt('int', 'x', '', 1)]), Opt('int', 'y', '', 2)]),
                                 Opt('int', 'z', '', 3)])
            SCHEMAS[sch.sid] = sch
            drv.define_schema(sch.sid, sch.spec())
            texts = [t.replace(b'o', b'root').replace(b'O', b'ROOT') for t in ODD_TEXTS[:30]] + \
                    [b'w t { root { x = 1 } } w t { } z = 7', b'w t { root { x = 1 } y = 3 } w t { root { } } w u { }', b'root { } z = 7 root { x = 2 }']
            cases = [robust_case(sch.sid, fl_, t, (b'z = 7', b'z'), quiet=True) for fl_ in (0, CFGF['IGNORE_UNKNOWN']) for t in texts]
            for c, r in zip(cases, drv.run(cases)):
                judge_robust(st, sch.sid, c, r, (b'z = 7', b'z'))
                st.transitions += 1
        if time.time() > deadline:
            st.complete = False
            break
    if not st.samples:
        st.samples.append({'option_kinds': list(ODD_KINDS), 'flag_letters': ODD_FLAGS, 'texts': len(ODD_TEXTS)})
    return st.result([drv])


def shard_ctxflags(shard):
    flagsets, deadline = shard
    drv = get_driver('asan')
    drv.define_schema('KS', KS.spec())
    st = ShardStats('context flag bits')
    texts = ODD_TEXTS + [b'b = z', b'a = {1,2} e t { n = 2 }', b'c { k = v }', b'k = v', b'k = v b = z', b'e t { k = v }', b'x { r = {q} }', b'u { } b = 1',
                         b'f(1)', b'include("nope")']
    for fl in flagsets:
        cases = [robust_case('KS', fl, t, None, quiet=True) for t in texts]
        for c, r in zip(cases, drv.run(cases)):
            judge_robust(st, 'KS', c, r, None)
            st.transitions += 1
        st.nontriv(fl)
        if time.time() > deadline:
            st.complete = False
            break
    if not st.samples:
        st.samples.append({'context_flags': flagsets[:4], 'texts': len(texts)})
    return st.result([drv])


def shapes(nmax):
    sizes = [n for n in (1, 2, 10, 100, 1000, 10000, 100000) if n <= nmax]
    bounds = [31, 32, 33, 63, 64, 65, 8191, 8192, 8193, 16383, 16384, 16385]
    out = []   # (name, n, flags, text)
    IG = CFGF['IGNORE_UNKNOWN']
    CM = CFGF['COMMENTS']
    for n in sizes:
        out.append(('deep-unknown-sections', n, IG, b'u { ' * n + b'} ' * n + b'b = z'))
        out.append(('deep-unknown-sections-unclosed', n, IG, b'u { ' * n))
        out.append(('deep-unknown-sections-halfclosed', n, IG, b'u { ' * n + b'} ' * (n // 2)))
        out.append(('deep-unknown-titled', n, IG, b'u t { ' * n + b'} ' * n))
        out.append(('open-braces', n, 0, b'{ ' * n))
        out.append(('close-braces', n, 0, b'} ' * n))
        out.append(('open-braces-in-list', n, 0, b'a = ' + b'{ ' * n))
        out.append(('open-parens', n, 0, b'f ' + b'( ' * n))
        out.append(('list-values', n, 0, b'a = {' + b','.join([b'1'] * n) + b'}'))
        out.append(('list-values-unclosed', n, 0, b'a = {' + b','.join([b'1'] * n)))
        out.append(('call-args', n, 0, b'f(' + b','.join([b'q'] * n) + b')'))
        out.append(('call-args-unclosed', n, 0, b'f(' + b','.join([b'q'] * n)))
        out.append(('unknown-list-values', n, IG, b'u = {' + b','.join([b'1'] * n) + b'} b = z'))
        out.append(('backslashes-dq', n, 0, b'b = "' + b'\\' * n + b'"'))
        out.append(('backslashes-dq-unclosed', n, 0, b'b = "' + b'\\' * n))
        out.append(('backslashes-sq', n, 0, b"b = '" + b'\\' * n + b"'"))
        out.append(('backslashes-sq-unclosed', n, 0, b"b = '" + b'\\' * n))
        out.append(('dollar-braces', n, 0, b'b = ' + b'${' * n))
        out.append(('dollar-braces-dq', n, 0, b'b = "' + b'${' * n + b'"'))
        out.append(('env-refs', n, 0, b'b = "' + b'${V}' * n + b'"'))
        out.append(('env-default-refs', n, 0, b'b = ' + b'${U:-d}' * n))
        out.append(('newlines', n, CM, b'\n' * n + b'b = z'))
        out.append(('line-comments', n, CM, b'# c\n' * n + b'b = z'))
        out.append(('empty-line-comments', n, CM, b'#\n' * n + b'b = z'))
        out.append(('block-comments', n, CM, b'/* c */ ' * n + b'b = z'))
        out.append(('empty-block-comments', n, CM, b'/**/' * n + b'b = z'))
        out.append(('stars', n, CM, b'/' + b'*' * n + b'/ b = z'))
        out.append(('section-instances', n, 0, b'e t { } ' * n))
        out.append(('section-instances-distinct', min(n, 10000), 0, b''.join(b'e t%d { n = 1 } ' % k for k in range(min(n, 10000)))))
        out.append(('reopen-single-section', n, 0, b'x { r += { b } } ' * n))
        out.append(('assignments', n, 0, b't = on ' * n))
        out.append(('free-form-keys', min(n, 10000), 0, b'c { ' + b''.join(b'k%d = v ' % k for k in range(min(n, 10000))) + b'}'))
        out.append(('free-form-keys-beside-declared-options', min(n, 10000), 0, b'k2 { ' + b''.join(b'k%d = v ' % k for k in range(min(n, 10000))) + b'd1 = 3 }'))
        out.append(('ptr-values', n, 0, b'z = {' + b','.join([b'p'] * n) + b'}'))
    # token families: one token of n bytes in every role a token can play.  n ranges over every length up to a small bound and
    # over the neighbourhood of every power of two (fixed-size buffers are where a length goes wrong)
    small = list(range(1, 81 if nmax <= 10000 else 301))
    pow2 = [m + d for m in (16, 32, 64, 128, 256, 512, 1024, 2048, 4096, 8192, 16384, 32768, 65536) for d in (-1, 0, 1)]
    W = lambda n: b'w' * n
    token_families = [
        ('unquoted-token', 0, lambda n: b'b = ' + W(n)),
        ('dq-token', 0, lambda n: b'b = "' + W(n) + b'"'),
        ('dq-token-unclosed', 0, lambda n: b'b = "' + W(n)),
        ('sq-token', 0, lambda n: b"b = '" + W(n) + b"'"),
        ('sq-token-unclosed', 0, lambda n: b"b = '" + W(n)),
        ('line-comment-token', CM, lambda n: b'#' + W(n) + b'\nb = z'),
        ('block-comment-token', CM, lambda n: b'/*' + W(n) + b'*/ b = z'),
        ('block-comment-unclosed', CM, lambda n: b'/*' + W(n)),
        ('title-token', 0, lambda n: b'e "' + W(n) + b'" { }'),
        ('title-token-twice', 0, lambda n: b'e ' + W(n) + b' { n = 2 } e ' + W(n) + b' { }'),
        ('name-token', IG, lambda n: W(n) + b' = 1'),
        ('name-token-refused', 0, lambda n: W(n) + b' = 1'),
        ('section-name-token', IG, lambda n: W(n) + b' t { b = 1 } b = z'),
        ('env-name-token', 0, lambda n: b'b = ${' + W(n) + b'}'),
        ('env-default-token', 0, lambda n: b'b = ${U:-' + W(n) + b'}'),
        ('blanks', 0, lambda n: b' ' * n + b'b = z'),
        ('escape-digits', 0, lambda n: b'b = "\\' + b'7' * min(n, 4000) + b'"'),
        # a name is looked up through the path machinery: every step of a path, its qualifiers, its last step
        ('path-first-step', IG, lambda n: W(n) + b'|n = 1'),
        ('path-first-step-refused', 0, lambda n: W(n) + b'|n = 1'),
        ('path-first-step-qualified', IG, lambda n: W(n) + b'=t|n = 1'),
        ('path-title-qualifier', 0, lambda n: b'e t { } e=' + W(n) + b'|n = 1'),
        ('path-title-qualifier-found', 0, lambda n: b'e ' + W(n) + b' { } e=' + W(n) + b'|n = 2'),
        ('path-quoted-title-qualifier', 0, lambda n: b'e t { } "e=\'' + W(n) + b'\'|n" = 1'),
        ('path-index-qualifier', 0, lambda n: b'e t { } e=' + b'1' * n + b'|n = 1'),
        ('path-last-step', 0, lambda n: b'e t { } e|' + W(n) + b' = 1'),
        ('path-last-step-skipped', IG, lambda n: b'e t { } e|' + W(n) + b' = 1'),
        ('path-many-steps', IG, lambda n: b'|'.join([b'w'] * n) + b' = 1'),
        ('path-separators', IG, lambda n: b'e' + b'|' * n + b'n = 1'),
        # values of every kind, list elements, call arguments, include targets, free-form keys and values
        ('int-token', 0, lambda n: b'a = {' + b'1' * n + b'}'),
        ('int-token-zeros', 0, lambda n: b'a = {' + b'0' * n + b'7}'),
        ('float-token', 0, lambda n: b'v = 1.' + b'1' * n),
        ('float-token-exponent', 0, lambda n: b'v = 1e-' + b'0' * n + b'1'),
        ('bool-token', 0, lambda n: b't = ' + W(n)),
        ('list-element-token', 0, lambda n: b'x { r = {a, ' + W(n) + b', b} }'),
        ('ptr-token', 0, lambda n: b'z = {' + W(n) + b'}'),
        ('call-arg-token', 0, lambda n: b'f(' + W(n) + b', "' + W(n) + b'")'),
        ('include-target-token', 0, lambda n: b'include(' + W(n) + b')'),
        ('include-target-path-token', 0, lambda n: b'include("' + b'/'.join([b'w'] * n) + b'")'),
        ('free-form-key-token', 0, lambda n: b'c { ' + W(n) + b' = v }'),
        ('free-form-value-token', 0, lambda n: b'c { k = ' + W(n) + b' }'),
        ('free-form-key-twice', 0, lambda n: b'c { ' + W(n) + b' = v ' + W(n) + b' = u }'),
        ('free-form-key-beside-declared', 0, lambda n: b'k2 { ' + W(n) + b' = v d1 = 3 }'),
    ]
    for n in sorted(set(sizes + bounds + small + pow2)):
        if n > nmax:
            continue
        for (name, flags, fn) in token_families:
            out.append((name, n, flags, fn(n)))
    return out


def shard_shapes(shard):
    items, variant, deadline = shard
    drv = get_driver(variant)
    drv.define_schema('KS', KS.spec())
    st = ShardStats('shapes')
    for (name, n, flags, text) in items:
        if time.time() > deadline:
            st.complete = False
            break
        hz = 20 + n // 2000
        for via in ('parse_buf', 'parse_fp'):
            c = robust_case('KS', flags, text, None, via=via, fork=True, horizon=hz, quiet=True, path=(via == 'parse_buf'),
                            pre=['env %s %s' % (enc(b'V'), enc(b'val'))])
            r = drv.run([c])[0]
            if r.status == 'hang':
                # re-run alone with a 6x longer limit before calling it a hang
                c2 = robust_case('KS', flags, text, None, via=via, fork=True, horizon=hz * 6, quiet=True, path=(via == 'parse_buf'),
                                 pre=['env %s %s' % (enc(b'V'), enc(b'val'))])
                r = drv.run([c2])[0]
            # keep the replay script small: shapes are regenerated from (name, n)
            c.lines = ['note shape=%s n=%d variant=%s' % (name, n, variant)] + (c.lines if len(text) < 3000 else
                                                                              [l if len(l) < 3000 else l[:200] + '...(generated: see note)' for l in c.lines])
            judge_robust(st, 'KS', c, r, None)
            st.transitions += 1
            st.nontriv('%s/%d/%s' % (name, n, via))
        if len(st.samples) < 2:
            st.samples.append({'shape': name, 'n': n, 'flags': flags, 'text_head': text[:60].decode('latin-1')})
    return st.result([drv])


def shard_sources(shard):
    deadline = shard
    drv = get_driver('asan')
    drv.define_schema('KS', KS.spec())
    root = engine.worker_root() + '-src'
    drv.set_root(root)
    st = ShardStats('sources')
    texts = [b'', b'b = z', b'a = {1,2} e t { n = 2 }', b'b = "x', b"b = 'x", b'b = /* x', b'b = }', b'e t {', b'f(a, =', b'b = "x\\',
             b'#\n', b'/**/ b = z', b'b = \x00z', b'\x00', b'b = z\x00 t = on']
    fix = ['mkdir ' + enc('d'), 'mkfile %s %s' % (enc('empty.conf'), enc(b''))]
    for k, t in enumerate(texts):
        fix.append('mkfile %s %s' % (enc('t%d.conf' % k), enc(t)))
        fix.append('mkfile %s %s' % (enc('i%d.conf' % k), enc(b'include("t%d.conf")\nt = on\n' % k)))
    fix.append('mkfile %s %s' % (enc('self.conf'), enc(b'include("self.conf")\n')))
    fix.append('mkfile %s %s' % (enc('incdir.conf'), enc(b'include("d")\n')))
    fix.append('mkfile %s %s' % (enc('incnull.conf'), enc(b'include("/dev/null") b = z\n')))
    fix.append('mkfile %s %s' % (enc('incmissing.conf'), enc(b'include("nope.conf")\n')))
    fix += ['passwd %s %s' % (enc('me'), enc(root + '/h')), 'me ' + enc('me'), 'mkdir ' + enc('h')]      # tilde forms as parse and include targets
    cases = []
    for fl in (0, CFGF['COMMENTS'], CFGF['IGNORE_UNKNOWN']):
        for k, t in enumerate(texts):
            if b'\0' not in t:
                cases.append((robust_case('KS', fl, t, None, 'parse_buf', pre=fix, fork=True, horizon=20, quiet=True), False))
            cases.append((robust_case('KS', fl, t, None, 'parse_fp', pre=fix, fork=True, horizon=20, quiet=True), False))
            cases.append((robust_case('KS', fl, ('t%d.conf' % k).encode(), None, 'parse', pre=fix, fork=True, horizon=20, quiet=True), True))
            cases.append((robust_case('KS', fl, ('i%d.conf' % k).encode(), None, 'parse', pre=fix, fork=True, horizon=20, quiet=True), True))
            cases.append((robust_case('KS', fl, root.encode() + ('/t%d.conf' % k).encode(), None, 'parse', pre=fix, fork=True, horizon=20, quiet=True), True))
        for target in (b'd', b'empty.conf', b'/dev/null', b'nope.conf', b'self.conf', b'incdir.conf', b'incnull.conf', b'incmissing.conf',
                       b'', b'~', b'~/', b'~me', b'~me/', b'~nouser', b'~/nope.conf', b'~me/nope.conf', b'~~', b'/', b'.', b'..',
                       b'/proc/self/mem'):      # a regular file whose read fails (EIO)
            cases.append((robust_case('KS', fl, target, None, 'parse', pre=fix, fork=True, horizon=20, quiet=True), True))
            cases.append((robust_case('KS', fl, b'include("' + target + b'") b = z', None, 'parse_buf', pre=fix, fork=True, horizon=20, quiet=True), False))
    # diagnostics without a user error function go to stderr (never stdout); declarations with a repeated name only draw a diagnostic
    DUP = Schema('DUP', [Opt('int', 'a', '', 1), Opt('int', 'a', '', 2), Opt('str', 'A', '', b'x'), Opt('sec', 's', '', sub=[Opt('int', 'x', '', 1), Opt('int', 'x', '', 2)])])
    SCHEMAS['DUP'] = DUP
    drv.define_schema('DUP', DUP.spec())
    for t in texts + [b'a = 5 A = y s { x = 3 }', b'zz = 1', b'a = {']:
        if b'\0' in t:
            continue
        for sid, fl in (('KS', 0), ('DUP', 0), ('DUP', CFGF['NOCASE'])):
            c = Case(fix + ['init A %s %d noerr' % (sid, fl), 'cb_quiet 1', 'parse_buf A ' + enc(t), 'stdoutcheck', 'dump A 7', 'print A', 'free A'], fork=True, horizon=20)
            r = drv.run([c])[0]
            script_case = Case(['root ' + enc(root)] + c.lines)
            judge_robust(st, sid, script_case, r, None)
            st.transitions += 1
    for c, fok in cases:
        if time.time() > deadline:
            st.complete = False
            break
        r = drv.run([c])[0]
        script_case = Case(['root ' + enc(root)] + c.lines)
        judge_robust(st, 'KS', script_case, r, None, file_ok=fok)
        st.transitions += 1
        st.nontriv(c.lines[-6])
    st.samples.append({'source': 'parse of a file that includes a directory', 'script': cases[-3][0].lines[-6:]})
    return st.result([drv])


def main():
    ck = engine.Check(PID)
    if ck.replay:
        engine.replay_file(ck.replay)
        return
    quick = ck.tier == 'quick'
    engine.build(['asan'] if quick else ['asan', 'plain', 'msan'])
    dl = ck.deadline
    alpha, nclasses, added = byte_alphabet()
    ck.cov['scanner_equivalence_classes'] = nclasses
    ck.cov['byte_alphabet'] = [a.decode('latin-1') for a in alpha]
    ck.cov['alphabet_symbols_added_from_yy_ec'] = added
    A = len(alpha)
    # (c) shapes and (d) sources first: they are few and each can be slow
    sh = shapes(10000)
    sh.sort(key=lambda x: -len(x[3]))          # the long ones first, spread over the shards
    K = max(16, len(sh) // 24)
    engine.phase(ck, 'shape families n <= 10^4; one token of every length 1..80 and around every power of two in every role', shard_shapes,
                 [(sh[i::K], 'asan', dl) for i in range(K)], shapes=len(sh))
    engine.phase(ck, 'sources and odd targets', shard_sources, [dl])
    odd = [(k, m) for k in ODD_KINDS for m in range(1 << len(ODD_FLAGS)) if not (m >> 9 & 1) or k in ('int', 'float', 'bool', 'str')]
    engine.phase(ck, 'every subset of 10 option flags on every option kind (meaningful or not) x 4 context flag sets x %d texts' % len(ODD_TEXTS), shard_odd,
                 [(list(c), dl) for c in engine.chunks(odd, 28)], schemas=len(odd))
    # "any flags": every set of up to three of the fourteen flag bits handed to cfg_init, including the ones meant for options
    ctxsets = [f for f in range(1 << 14) if bin(f).count('1') <= (3 if quick else 5)]
    engine.phase(ck, 'every set of <= %d of the 14 flag bits as context flags' % (3 if quick else 5), shard_ctxflags,
                 [(list(c), dl) for c in engine.chunks(ctxsets, 16)], flagsets=len(ctxsets))
    # (a) byte strings
    def buf_strings(length):
        shards = []
        for fl in FLAGSETS:
            if length <= 2:
                shards.append((fl, 'buf', alpha, length, (), dl))
            else:
                for i in range(A):
                    for j in (range(A) if length >= 4 else [None]):
                        shards.append((fl, 'buf', alpha, length, (i,) if j is None else (i, j), dl))
        engine.phase(ck, 'byte strings of length %d' % length, shard_sweep, shards, alphabet=A, flagsets=len(FLAGSETS))
    for length in (1, 2, 3):
        buf_strings(length)
    alpha_fp = alpha + [b'\0']
    for length in ([1, 2, 3] if quick else [1, 2, 3, 4]):
        shards = []
        for fl in (FLAGSETS[0], FLAGSETS[4]):
            if length <= 2:
                shards.append((fl, 'fp', alpha_fp, length, (), dl))
            else:
                for i in range(A + 1):
                    shards.append((fl, 'fp', alpha_fp, length, (i,), dl))
        engine.phase(ck, 'byte strings of length %d from a stream (NUL included)' % length, shard_sweep, shards, alphabet=A + 1, flagsets=2)
    # (b) E1 under all flag sets
    N = 5 if quick else 7
    for n in ([4, N]):
        shards = []
        for sid in [s.sid for s in S.family_F()]:
            sch = SCHEMAS[sid]
            al = S.alphabet_for(sch)
            for fl in FLAGSETS:
                inner, frontier = trace.viable_prefixes(sch, fl & ~CFGF['IGNORE_UNKNOWN'], al, 2)
                shards.append((sid, fl, 0, inner, dl))
                for ch in engine.chunks(frontier, 6):
                    shards.append((sid, fl, n, ch, dl))
        engine.phase(ck, 'E1 token sequences N=%d' % n, shard_e1, shards, schemas=len(S.family_F()), flagsets=len(FLAGSETS))
    Lp = 5 if quick else 7
    engine.phase(ck, 'quoted option names that are path strings of length <= %d (every name is looked up through the path machinery)' % Lp, shard_pathnames,
                 [([a + b], Lp - 1, dl) for a in PATHALPHA for b in PATHALPHA] + [([a], 1, dl) for a in PATHALPHA], alphabet=len(PATHALPHA))
    buf_strings(4)      # the largest product of the quick tier last
    if not quick:
        # MemorySanitizer pass (uninitialised reads): short byte strings, shapes up to 10^3, under clang -fsanitize=memory
        for length in (1, 2, 3):
            shards = []
            for fl in (FLAGSETS[0], FLAGSETS[4]):
                if length <= 2:
                    shards.append((fl, 'buf@msan', alpha, length, (), dl))
                else:
                    for i in range(A):
                        shards.append((fl, 'buf@msan', alpha, length, (i,), dl))
            engine.phase(ck, 'MSan: byte strings of length %d' % length, shard_sweep, shards, alphabet=A, flagsets=2)
        shm = [s for s in shapes(1000)]
        engine.phase(ck, 'MSan: shape families n <= 10^3', shard_shapes, [(list(c), 'msan', dl) for c in engine.chunks(shm, 12)], shapes=len(shm))
        sh = [s for s in shapes(100000) if s[1] > 10000]
        engine.phase(ck, 'shape families n = 10^5 (plain build)', shard_shapes, [([c], 'plain', dl) for c in sh], shapes=len(sh))
        for length in (5,):
            shards = []
            for fl in FLAGSETS:
                for i in range(A):
                    for j in range(A):
                        shards.append((fl, 'buf', alpha, length, (i, j), dl))
            engine.phase(ck, 'byte strings of length %d' % length, shard_sweep, shards, alphabet=A, flagsets=len(FLAGSETS))
        for length in (5, 6, 7):
            shards = []
            for fl in (FLAGSETS[0], FLAGSETS[4]):
                for i in range(len(REDUCED)):
                    for j in range(len(REDUCED)):
                        shards.append((fl, 'buf', REDUCED, length, (i, j), dl))
            engine.phase(ck, 'byte strings of length %d over the %d start-condition classes' % (length, len(REDUCED)), shard_sweep, shards,
                         alphabet=len(REDUCED), flagsets=2)
    ck.assumptions = ['the byte alphabet has one representative of every equivalence class of the generated scanner (recomputed at build time) '
                      'plus the bytes whose value the actions inspect; strings longer than the bound are covered only by the shape families',
                      'read errors are not injected at arbitrary points; one target (/proc/self/mem) is a file whose first read fails', 'stack limit 8 MiB']
    ck.finish('byte strings: full product over the alphabet; E1 token sequences under 5 context-flag sets; shape families by (name, n, source); '
              'non-trivial = distinct (prefix shard, outcome hash) / distinct texts with at least one completed item / distinct shapes')


if __name__ == '__main__':
    main()
