#!/usr/bin/env python3
"""C03 - string, escape, environment and comment lexing decode as specified.

Every literal over the content classes of the scanner, exhaustively up to a length
bound, in value position of a string option / inside a list, under four
environments; oracle = reflex + RefParser (return code and decoded values).
"""
import sys, os, time, itertools
sys.path.insert(0, os.path.dirname(os.path.abspath(__file__)))
import engine
from engine import Case, enc, ShardStats, get_driver
from model import ACCEPT, REJECT, UNSPEC, dump_sec, Opt, Schema
import reftext

PID = 'C03'
SCH = Schema('L1', [Opt('str', 's', '', b'D'), Opt('str', 'sl', 'L'), Opt('int', 'i', '', 5)])
CLASSES = [b'\\', b'n', b't', b'r', b'b', b'f', b'a', b'e', b'v', b'x', b'0', b'1', b'3', b'7', b'8', b'g',
           b'$', b'{', b'}', b':', b'-', b'V', b'"', b"'", b'\n', b'#', b'/', b'*', b' ']
MULTI14 = [b'\\', b'x', b'0', b'3', b'7', b'8', b'$', b'{', b'}', b':', b'-', b'V', b'"', b'\n']
WORDCLS = [b'a', b'/', b'$', b'\\', b'-', b':', b'.', b'V', b'7', b'\x80', b'\xff', b';', b'[', b'~']
ENVS = [None, b'', b'val', b'a"b${V}#\\']
COMMENTS = [b'# c\n', b'// c\n', b'/* c */', b'/* a\nb */', b'#\n', b'/**/']
BATCH = 500


def templates():
    return {
        'dq': (b's = "', b'"'),
        'sq': (b"s = '", b"'"),
        'dql': (b'sl = { "', b'" , x }'),
        'sql': (b"sl += '", b"'"),
        'uq': (b's = ', b''),
        'uql': (b'sl = { a , ', b' }'),
        # literals that are not the first thing in their input: after quoted strings and comments (the scanner's scratch buffer
        # has been used), and followed by more
        'uq2': (b'sl = { "first" , \'second\' } /* c1 */ # c2\ns = ', b' i = 7'),
        'dq2': (b'sl = { "first" } // c\ns = "', b'" i = 7'),
    }


def run_cases(st, drv, items):
    """items: list of (text, envval)"""
    cases, exps = [], []
    for text, ev in items:
        env = {b'V': ev} if ev is not None else {}
        m = reftext.meaning(SCH, 0, text, env)
        lines = []
        if ev is not None:
            lines.append('env %s %s' % (enc(b'V'), enc(ev)))
        lines += ['init A L1 0', 'parse_buf A ' + enc(text), 'dump A 0']
        c = Case(lines)
        cases.append(c)
        st.transitions += 1
        if m.verdict == ACCEPT:
            e = ['r parse_buf 0', 'dump ' + dump_sec(m.store, 0)]
            st.nontriv(e[1])
        elif m.verdict == REJECT:
            e = ['r parse_buf 1']
            st.nontriv('R' + m.why)
        else:
            e = None
        exps.append(e)
    results = drv.run(cases)
    for c, r, e, it in zip(cases, results, exps, items):
        st.evaluations += 1
        script = 'schema L1 %s\n%s' % (SCH.spec(), c.script())
        if r.status in ('crash', 'hang'):
            st.violation('%s:%s' % (r.status, engine.sanitizer_summary(r.info)), script, str(e), engine.excerpt(r.info))
            continue
        rc = r.first('r parse_buf')
        dump = r.first('dump ')
        st.outcome((rc or '') + (dump or ''))
        if e is None:
            st.unspec += 1
            continue
        st.validated += 1
        if rc != e[0]:
            st.violation('rc-mismatch', script, e[0], rc or 'none')
        elif len(e) > 1 and dump != e[1]:
            st.violation('value-mismatch', script, e[1], dump or 'none')
        if len(st.samples) < 2 and e and len(e) > 1 and len(it[0]) > 8:
            st.samples.append({'text': it[0].decode('latin-1'), 'env_V': None if it[1] is None else it[1].decode('latin-1'), 'expected': e})


def shard_product(shard):
    tname, classes, lo, hi, prefix, envs, deadline = shard
    pre, post = templates()[tname]
    drv = get_driver('asan')
    drv.define_schema('L1', SCH.spec())
    st = ShardStats('%s len<=%d' % (tname, hi))
    buf = []
    for n in range(max(lo, len(prefix)), hi + 1):
        for tail in itertools.product(classes, repeat=n - len(prefix)):
            body = b''.join(prefix) + b''.join(tail)
            for ev in envs:
                buf.append((pre + body + post, ev))
            if len(buf) >= BATCH:
                run_cases(st, drv, buf)
                buf = []
        if time.time() > deadline:
            st.complete = False
            break
    if buf:
        run_cases(st, drv, buf)
    return st.result([drv])


def shard_comments(shard):
    first, deadline = shard
    drv = get_driver('asan')
    drv.define_schema('L1', SCH.spec())
    st = ShardStats('literals next to comments')
    buf = []
    for n in range(1, 4):
        for tail in itertools.product(CLASSES, repeat=n - 1):
            body = first + b''.join(tail)
            for q in (b'"', b"'"):
                lit = q + body + q
                for cm in COMMENTS:
                    buf.append((cm + b's = ' + lit, b'val'))
                    buf.append((b's = ' + lit + b' ' + cm, b'val'))
                    buf.append((b'sl = { ' + lit + b' } ' + cm + b' i = 7', b'val'))
        if len(buf) >= BATCH:
            run_cases(st, drv, buf)
            buf = []
    if buf:
        run_cases(st, drv, buf)
    return st.result([drv])


def shard_long(shard):
    """literals whose decoded length sits around the growth steps of the scanner's scratch buffer (32, 64, 128, ...), alone and
    after earlier strings, plain and with an escape / a substitution inside"""
    lengths, deadline = shard
    drv = get_driver('asan')
    drv.define_schema('L1', SCH.spec())
    st = ShardStats('long literals')
    T = templates()
    buf = []
    for n in lengths:
        for body in (b'w' * n, b'w' * (n - 1) + b'\\n', b'${V}' + b'w' * (n - 3), b'w' * (n - 2) + b'\\x41' + b'z'):
            for t in ('dq', 'sq', 'dq2', 'dql', 'sql'):
                if t.startswith('sq') and (b'${' in body or b'\\' in body):
                    continue
                pre, post = T[t]
                buf.append((pre + body + post, b'val'))
    run_cases(st, drv, buf)
    return st.result([drv])


def spec_kind(b):
    """the partition of bytes the LANGUAGE makes inside literals (not the scanner's): bytes of one kind play the same role in
    every rule of the statement"""
    c = chr(b)
    if c in 'ntrbfaev':
        return 'escape-letter-' + c            # each stands for its own control character
    if c == 'x':
        return 'hex-escape-letter'
    if c in '01234567':
        return 'octal-digit'
    if c in '89':
        return 'decimal-digit'
    if c in 'cd':
        return 'hex-letter-lower'              # a b e f are escape letters as well
    if c in 'ABCDEF':
        return 'hex-letter-upper'
    if 'a' <= c <= 'z':
        return 'lower'
    if 'A' <= c <= 'Z':
        return 'upper'
    if b >= 0x80:
        return 'high'
    if b < 0x20 or b == 0x7F:
        return 'control-%02x' % b if b in (0x09, 0x0A, 0x0B, 0x0C, 0x0D) else 'control'
    if c in '"\'\\${}:-#/*=+,() ':
        return 'punct-' + c                    # characters with a role somewhere in the language: each its own kind
    return 'punct-ordinary'


def ext_classes():
    """CLASSES plus one representative of every cell of the common refinement of two partitions of the bytes: the equivalence
    classes of the generated scanner (bytes of one class are indistinguishable to the scanner in every start condition;
    recomputed from the build, so a scanner that starts to treat another byte specially gets that byte into the alphabet) and
    the kinds the language itself distinguishes (so a scanner that starts to treat two bytes ALIKE that the language keeps
    apart - upper-case X with the hex escape letter x - gets both into the alphabet as well)"""
    import json
    ec = json.load(open(os.path.join(engine.BUILD, 'asan', 'yy_ec.json')))['classes']
    have = set(c[0] for c in CLASSES)
    ext, added = list(CLASSES), []
    for cls, members in sorted(ec.items(), key=lambda kv: int(kv[0])):
        cells = {}
        for m in members:
            if m != 0:
                cells.setdefault(spec_kind(m), []).append(m)
        for kind, ms in sorted(cells.items()):
            if not any(m in have for m in ms):
                ext.append(bytes([ms[0]]))
                have.add(ms[0])
                added.append(ms[0])
    return ext, added


def main():
    ck = engine.Check(PID)
    if ck.replay:
        engine.replay_file(ck.replay)
        return
    engine.build(['asan'])
    quick = ck.tier == 'quick'
    dl = ck.deadline
    EXT, added = ext_classes()
    ck.cov['content_classes_added_from_yy_ec'] = added
    # bound 1: every body of length <= 3, all templates, all environments
    shards = []
    for t in ('dq', 'sq', 'dql', 'sql'):
        shards.append((t, EXT, 0, 0, (), ENVS, dl))
        for a in EXT:
            shards.append((t, EXT, 1, 3, (a,), ENVS, dl))
    engine.phase(ck, 'quoted bodies <= 3', shard_product, shards, templates=4, environments=4, alphabet=len(EXT))
    shards = []
    for t in ('uq', 'uql', 'uq2'):
        for a in WORDCLS:
            shards.append((t, WORDCLS, 1, 4 if quick else 5, (a,), [b'val'], dl))
    engine.phase(ck, 'unquoted words', shard_product, shards, alphabet=len(WORDCLS))
    engine.phase(ck, 'literals <= 3 next to comments', shard_comments, [(a, dl) for a in CLASSES])
    # substitution forms as single symbols, mixed with the characters they interact with
    ENVSYM = [b'${V}', b'${V:-d}', b'${U:-d}', b'${U}', b'${V:-}', b'${V:-a b}', b'${U:-${V}}', b'${U:-h:80}', b'${V:-h:1}', b'${U:-a:-b}', b'a', b'\\', b'$', b'{', b'}', b' ', b'"', b"'"]
    shards = []
    for t in ('dq', 'sq', 'uq', 'dql', 'uql', 'uq2', 'dq2'):
        for a in ENVSYM:
            shards.append((t, ENVSYM, 1, 3, (a,), ENVS, dl))
    engine.phase(ck, 'substitution forms ${V} ${V:-d} ${U:-d} ... as symbols, sequences <= 3, 7 templates, 4 environments', shard_product, shards,
                 alphabet=len(ENVSYM))
    steps = [n + d for n in (32, 64, 96, 128, 256, 1024) for d in (-2, -1, 0, 1, 2)]
    engine.phase(ck, 'literals whose decoded length is around a growth step of the scratch buffer', shard_long, [(list(c), dl) for c in engine.chunks(steps, 3)], lengths=len(steps))
    # bound 2: length 4, dq and sq, all four environments
    shards = []
    for t in ('dq', 'sq'):
        for a in CLASSES:
            for b in CLASSES:
                shards.append((t, CLASSES, 4, 4, (a, b), ENVS, dl))
    engine.phase(ck, 'quoted bodies == 4', shard_product, shards, templates=2, environments=4, alphabet=len(CLASSES))
    if not quick:
        shards = []
        for a in CLASSES:
            for b in CLASSES:
                shards.append(('dq', CLASSES, 5, 5, (a, b), [b'val'], dl))
        engine.phase(ck, 'double-quoted bodies == 5 (V=val)', shard_product, shards, alphabet=len(CLASSES))
        shards = []
        for t in ('dq', 'sq'):
            for a in MULTI14:
                for b in MULTI14:
                    shards.append((t, MULTI14, 5, 6, (a, b), [b'val'], dl))
        engine.phase(ck, 'bodies 5..6 over the 14 classes of multi-character rules', shard_product, shards, alphabet=len(MULTI14))
    ck.assumptions = ['UNSPEC forms (DESIGN.md section 4) are executed but not compared: NUL-producing escapes, ${ inside a word, '
                      '${..} spanning newline/quote, unterminated "..." and /* */, CR, lone + and *',
                      'bodies longer than the stated bounds are not covered']
    ck.finish('all bodies over %d content classes up to the stated length inside six literal templates, under environments '
              'V unset/empty/val/meta; non-trivial = distinct expected dump (accepted) or distinct rejection reason' % len(CLASSES))


if __name__ == '__main__':
    main()
