#!/usr/bin/env python3
"""C04 - text-to-number/boolean conversion is exact or rejected.

All tokens over the numeral alphabet up to a length bound x {int, float, bool} x three routes
(parser, cfg_setopt, cfg_setmulti) x prior errno; boundary values.  Oracle = refnum (model.conv_*).
"""
import sys, os, time, itertools
sys.path.insert(0, os.path.dirname(os.path.abspath(__file__)))
import engine
from engine import Case, enc, ShardStats, get_driver
from model import ACCEPT, REJECT, UNSPEC, Opt, Schema, conv_int, conv_float, conv_bool, fmt_float, LONG_MAX, LONG_MIN

PID = 'C04'
SCH = Schema('N1', [Opt('int', 'i', '', 5), Opt('float', 'f', '', 2.5), Opt('bool', 'b', '', False),
                    Opt('int', 'il', 'L', [b'1']), Opt('float', 'fl', 'L', [b'1.5']), Opt('bool', 'bl', 'L', [b'on'])])
NUM = [b'0', b'1', b'7', b'8', b'9', b'a', b'f', b'x', b'b', b'e', b'.', b'-', b'+', b' ', b'g']
BOOLA = [b't', b'r', b'u', b'e', b'y', b's', b'o', b'n', b'f', b'a', b'l', b'T', b'R', b'U', b'E', b'Y', b'S', b'O', b'N', b'F', b'A', b'L',
         b'1', b'0', b' ']
BOOL5 = [b'f', b'a', b'l', b's', b'e', b'F', b'A', b'L', b'S', b'E']
ERRNOS = [0, 34, 22]
KINDS = {'i': ('int', conv_int), 'f': ('float', conv_float), 'b': ('bool', conv_bool)}
BATCH = 300


def fmt(kind, v):
    if kind == 'float':
        return fmt_float(v)
    return '%d' % v


def build_case(tok, errno, kinds, routes):
    """-> (Case, plan) ; plan = list of (route, kindletter) in op order"""
    lines, plan = [], []
    ctx = {'setopt': 'A', 'setmulti': 'B', 'parse': 'C', 'plist': 'D', 'mlist': 'E', 'pbare': 'F', 'pappend': 'G'}
    good = {'i': b'1', 'f': b'1.5', 'b': b'on'}
    for r in routes:
        lines.append('init %s N1 0' % ctx[r])
    for r in routes:
        for k in kinds:
            lines.append('errno %d' % errno)
            if r == 'setopt':
                lines.append('setopt A/%s %s' % (k, enc(tok)))
            elif r == 'setmulti':
                lines.append('setmulti B %s 1 %s' % (enc(k), enc(tok)))
            elif r == 'plist':      # second element of a list in a file
                lines.append('parse_buf D ' + enc(k.encode() + b'l = {' + good[k] + b', "' + tok + b'"}'))
            elif r == 'mlist':      # second element of a bulk set
                lines.append('setmulti E %s 2 %s %s' % (enc(k + 'l'), enc(good[k]), enc(tok)))
            elif r == 'pbare':      # a list option given one value without braces
                lines.append('parse_buf F ' + enc(k.encode() + b'l = "' + tok + b'"'))
            elif r == 'pappend':    # ... appended without braces: second element, after the default
                lines.append('parse_buf G ' + enc(k.encode() + b'l += "' + tok + b'"'))
            else:
                lines.append('parse_buf C ' + enc(k.encode() + b' = "' + tok + b'"'))
            if r == 'pbare':
                lines.append('get F %s %s 0' % (enc(k + 'l'), KINDS[k][0]))
            elif r in ('plist', 'mlist', 'pappend'):
                lines.append('get %s %s %s 1' % (ctx[r], enc(k + 'l'), KINDS[k][0]))
            else:
                lines.append('get %s %s %s 0' % (ctx[r], enc(k), KINDS[k][0]))
            plan.append((r, k))
    return Case(lines), plan


def run(st, drv, items):
    cases, plans = [], []
    for tok, errno, kinds, routes in items:
        c, plan = build_case(tok, errno, kinds, routes)
        cases.append(c)
        plans.append(plan)
    results = drv.run(cases)
    for (tok, errno, kinds, routes), c, plan, r in zip(items, cases, plans, results):
        st.evaluations += 1
        script = 'schema N1 %s\n%s' % (SCH.spec(), c.script())
        if r.status in ('crash', 'hang'):
            st.violation('%s:%s' % (r.status, engine.sanitizer_summary(r.info)), script, '', engine.excerpt(r.info))
            continue
        # split the answer into one group per conversion: [diag*] r <op> <rc> ; r get <v>
        groups, cur = [], []
        for l in r.lines:
            if l.startswith('r init') or l.startswith('hyg') or l.startswith('leak'):
                continue
            cur.append(l)
            if l.startswith('r get '):
                groups.append(cur)
                cur = []
        if len(groups) != len(plan):
            st.violation('protocol', script, '%d conversions' % len(plan), r.text()[:500])
            continue
        for (route, k), g in zip(plan, groups):
            kind, conv = KINDS[k]
            verdict, val = conv(tok)
            st.transitions += 1
            ndiag = sum(1 for l in g if l.startswith('diag '))
            rl = [l for l in g if l.startswith('r ') and not l.startswith('r get')]
            rc = rl[0].split(' ')[2] if rl else '?'
            ok = {'setopt': rc == '1', 'setmulti': rc == '0', 'parse': rc == '0', 'plist': rc == '0', 'mlist': rc == '0', 'pbare': rc == '0', 'pappend': rc == '0'}[route]
            got = g[-1][6:]
            st.outcome('%s %s %s' % (kind, ok, got if ok else ''))
            if verdict == UNSPEC:
                st.unspec += 1
                # a token whose acceptance is unspecified may still have its accepted VALUE pinned down (sign + radix prefix)
                if isinstance(val, frozenset) and ok and got not in set(fmt(kind, v) for v in val):
                    st.violation('wrong-value:%s/%s' % (route, kind), script, 'if accepted, one of %s (%s/%s/errno=%d)'
                                 % (sorted(val), route, kind, errno), got)
                continue
            st.validated += 1
            label = '%s/%s/errno=%d' % (route, kind, errno)
            if verdict == ACCEPT:
                st.nontriv('%s=%s' % (kind, fmt(kind, val)))
                if not ok:
                    st.violation('wellformed-rejected:%s/%s' % (route, kind), script, 'accepted, value %s (%s)' % (fmt(kind, val), label), '\n'.join(g))
                elif got != fmt(kind, val):
                    st.violation('wrong-value:%s/%s' % (route, kind), script, '%s (%s)' % (fmt(kind, val), label), got)
            else:
                st.nontriv('%s!%s' % (kind, tok))
                if ok:
                    st.violation('malformed-accepted:%s/%s' % (route, kind), script, 'rejected (%s)' % label, '\n'.join(g))
                elif ndiag == 0:
                    st.violation('rejected-without-error:%s/%s' % (route, kind), script, 'a diagnostic (%s)' % label, '\n'.join(g))
        if len(st.samples) < 2 and len(tok) >= 3:
            st.samples.append({'token': tok.decode('latin-1'), 'prior_errno': errno, 'conversions': ['%s/%s' % p for p in plan],
                               'model': {k: str(KINDS[k][1](tok)) for k in kinds}})


def shard(sh):
    label, alpha, lo, hi, prefix, kinds, routes, errnos, deadline = sh
    drv = get_driver('asan')
    drv.define_schema('N1', SCH.spec())
    st = ShardStats(label)
    buf = []
    for n in range(max(lo, len(prefix)), hi + 1):
        for tail in itertools.product(alpha, repeat=n - len(prefix)):
            tok = b''.join(prefix) + b''.join(tail)
            for e in errnos:
                buf.append((tok, e, kinds, routes))
            if len(buf) >= BATCH:
                run(st, drv, buf)
                buf = []
        if time.time() > deadline:
            st.complete = False
            break
    if buf:
        run(st, drv, buf)
    return st.result([drv])


def boundary_tokens():
    out = []
    for v in (LONG_MAX, LONG_MAX - 1, LONG_MAX + 1, LONG_MIN, LONG_MIN + 1, LONG_MIN - 1, 2 ** 63, 2 ** 64, 2 ** 64 - 1, 2 ** 64 + 1,
              2 ** 31, 2 ** 32, -2 ** 31 - 1, 10 ** 19, 10 ** 30):
        out.append(b'%d' % v)
        if v >= 0:
            out.append(b'0x%x' % v)
            out.append(b'0x%X' % v)
            out.append(b'0%o' % v)
            out.append(b'0b' + bin(v)[2:].encode())
        else:
            out.append(b'-0x%x' % -v)
    out += [b'1.7976931348623157e308', b'1.7976931348623158e308', b'1.7976931348623159e308', b'1.8e308', b'1e309', b'-1.8e308', b'1e999',
            b'-1e999', b'4.9e-324', b'2.2250738585072014e-308', b'2.2250738585072011e-308', b'1e-999', b'0.0', b'-0.0', b'0e999', b'0.0e-999',
            b'1' * 400, b'1' * 400 + b'.5', b'0.' + b'0' * 400 + b'1', b'9' * 310, b'1e400', b'1e-400', b'.5', b'5.', b'.', b'e5', b'1e', b'1e+',
            b'1e+5', b'1E5', b'1.5e-3', b'00', b'007', b'08', b'0x', b'0b', b'0b2', b'0b1', b'0xg', b'0x0x5', b'0x 5', b'0x+5', b'0x-5', b'0-5',
            b'0b-1', b'0 ', b'', b'-', b'--5', b'-+5', b'5-', b'0x10', b'0b101', b'010', b'-7', b'-0', b'0', b'1_000', b'1,5', b"1'000",
            b'infinity', b'INF', b'nan', b'NaN', b'-inf', b'0x1p3', b'0x1.8p1', b'TRUE', b'Yes', b'oN', b'OFF', b'nO', b'fAlSe', b'tru', b'truee',
            b'on ', b' on', b'1', b'0', b'y', b'n', b'\xff', b'\x80true']
    return out


def shard_boundary(sh):
    toks, deadline = sh
    drv = get_driver('asan')
    drv.define_schema('N1', SCH.spec())
    st = ShardStats('boundary values')
    items = []
    for t in toks:
        for e in ERRNOS:
            routes = ('setopt', 'setmulti', 'parse', 'plist', 'mlist', 'pbare', 'pappend') if (b'"' not in t and b'\\' not in t and b'$' not in t and b'\0' not in t) else ('setopt', 'setmulti', 'mlist')
            items.append((t, e, ('i', 'f', 'b'), routes))
    run(st, drv, items)
    return st.result([drv])


def shard_defaults(sh):
    """the fourth way a value text reaches the conversions: a list default given as text in the declaration.  A well-formed token
    yields exactly its number; anything else stops cfg_init with the library's "Parse error in default value" abort - it is never
    silently dropped, truncated or replaced"""
    toks, deadline = sh
    drv = get_driver('asan')
    st = ShardStats('defaults given as text')
    good = {'i': b'1', 'f': b'1.5', 'b': b'on'}
    kname = {'i': 'int', 'f': 'float', 'b': 'bool'}
    for tok in toks:
        if time.time() > deadline:
            st.complete = False
            break
        for k in ('i', 'f', 'b'):
            kind, conv = KINDS[k]
            verdict, val = conv(tok)
            if verdict == UNSPEC:
                st.unspec += 1
                continue
            sch = Schema('DT', [Opt(kname[k], 'dl', 'L', [good[k], b'"' + tok + b'"'])])
            drv.define_schema('DT', sch.spec())
            c = Case(['init A DT 0', 'get A %s %s 1' % (enc(b'dl'), kind), 'get A %s size 0' % enc(b'dl')], fork=True)
            r = drv.run([c])[0]
            st.evaluations += 1
            st.transitions += 1
            st.validated += 1
            script = 'schema DT %s\n%s' % (sch.spec(), c.script())
            text = r.text() + (r.info or '')
            st.outcome('%s %s' % (r.status, r.first('r get ') or ''))
            if verdict == ACCEPT:
                st.nontriv('%s=%s' % (kind, fmt(kind, val)))
                if r.status != 'ok' or r.first('r init') != 'r init 1':
                    st.violation('wellformed-rejected:default/%s' % kind, script, 'cfg_init succeeds, element 1 = %s' % fmt(kind, val), text[-400:])
                elif (r.first('r get ') or '')[6:] != fmt(kind, val):
                    st.violation('wrong-value:default/%s' % kind, script, fmt(kind, val), r.first('r get ') or '')
            else:
                if 'libexit abort' not in text or 'Parse error in default value' not in text:
                    st.violation('malformed-accepted:default/%s' % kind, script, 'cfg_init stops with "Parse error in default value" (abort)', text[-400:])
    st.samples.append({'declaration': 'CFG_INT_LIST("dl", "{1, \\"<token>\\"}", CFGF_NONE)', 'tokens': len(toks)})
    return st.result([drv])


def main():
    ck = engine.Check(PID)
    if ck.replay:
        engine.replay_file(ck.replay)
        return
    engine.build(['asan'])
    quick = ck.tier == 'quick'
    dl = ck.deadline
    all_routes = ('setopt', 'setmulti', 'parse', 'plist', 'mlist', 'pbare', 'pappend')
    bt = boundary_tokens()
    engine.phase(ck, 'boundary values, all routes, all errno', shard_boundary, [(list(c), dl) for c in engine.chunks(bt, 8)], tokens=len(bt))
    dt = [t for t in bt if not any(c in t for c in (b'"', b'\\', b'$', b'\0'))]
    dt += [a + b for a in [b''] + NUM for b in NUM if b'"' not in a + b] + [a + b for a in BOOLA for b in BOOLA] + [b'true', b'false', b'yes', b'off', b'ye', b'onn']
    dt = sorted(set(dt))
    engine.phase(ck, 'list defaults given as text: boundary tokens and all numeral / boolean tokens <= 2 x {int, float, bool}', shard_defaults,
                 [(list(c), dl) for c in engine.chunks(dt, 24)], tokens=len(dt))
    sh = [('tokens <= 4, int+float, 3 routes, 3 errno', NUM, 0, 0, (), ('i', 'f'), all_routes, ERRNOS, dl)]
    for a in NUM:
        sh.append(('tokens <= 4, int+float, 3 routes, 3 errno', NUM, 1, 4, (a,), ('i', 'f'), all_routes, ERRNOS, dl))
    engine.phase(ck, 'numeral tokens <= 4 x {int,float} x 3 routes x 3 errno', shard, sh, alphabet=len(NUM))
    sh = []
    for a in BOOLA:
        sh.append(('bool tokens <= 4', BOOLA, 1, 4, (a,), ('b',), all_routes, [0, 34], dl))
    for a in BOOL5:
        sh.append(('bool tokens == 5', BOOL5, 5, 5, (a,), ('b',), all_routes, [0], dl))
    engine.phase(ck, 'boolean tokens <= 4 (25 symbols) and == 5 (10 symbols) x 3 routes', shard, sh)
    sh = []
    for a in NUM:
        for b in NUM:
            sh.append(('tokens == 5', NUM, 5, 5, (a, b), ('i', 'f'), ('setopt',), [0, 34], dl))
    engine.phase(ck, 'numeral tokens == 5 x {int,float} via cfg_setopt x errno {0,ERANGE}', shard, sh, alphabet=len(NUM))
    if not quick:
        sh = []
        for a in NUM:
            for b in NUM:
                sh.append(('tokens == 6', NUM, 6, 6, (a, b), ('i', 'f'), ('setopt',), [34], dl))
        engine.phase(ck, 'numeral tokens == 6 x {int,float} via cfg_setopt, stale ERANGE', shard, sh, alphabet=len(NUM))
    ck.assumptions = ['UNSPEC numerals (leading +, ACCEPTANCE of a sign before a radix prefix - the accepted value is pinned to the signed reading -, surrounding blanks, hex floats, inf/nan, denormal/underflow) are '
                      'executed but not compared', 'Python int()/float() are the exact reference (float() is correctly rounded like glibc strtod)']
    ck.finish('full product over the numeral alphabet (15 symbols) / boolean alphabet up to the stated length; one conversion = token x kind x route x '
              'prior errno; non-trivial = distinct accepted values and distinct rejected tokens per kind')


if __name__ == '__main__':
    main()
