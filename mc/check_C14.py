#!/usr/bin/env python3
"""C14 - user callbacks see exactly the parsed items, and their verdict binds.

A 4-option schema (scalar, list, section with a child, function) with every subset of options
carrying parse / validate callbacks; E1 texts; for each text with K callback invocations the k-th
invocation fails, k = 0..K.  Oracle: the invocation log equals the reference trace (parse and function
callbacks exactly; validation calls after every stored value, duplicates collapsed); stored values are
what the parse callback produced; a failing invocation fails the parse there, nothing is logged after
it and no later item is applied.  Pre-set validation: by-name setters x {pass, veto, rewrite}."""
import sys, os, time, itertools, re
sys.path.insert(0, os.path.dirname(os.path.abspath(__file__)))
import engine
from engine import Case, enc, ShardStats, get_driver
from model import Opt, Schema, dump_sec, ACCEPT, REJECT, INCOMPLETE, UNSPEC, RefParser, new_store, tokens_from_words
import schemas as S
import trace

PID = 'C14'
SLOTS = ['a.p', 'a.v', 'l.p', 'l.v', 's.v', 'x.p', 'x.v']


def variant(mask):
    on = {SLOTS[k] for k in range(len(SLOTS)) if mask >> k & 1}
    cb = lambda n: ''.join(c for c in 'pv' if '%s.%s' % (n, c) in on)
    return Schema('H%d' % mask, [Opt('int', 'a', '', 5, cb('a')), Opt('int', 'l', 'L', [b'1'], cb('l')),
                                 Opt('sec', 's', 'M', sub=[Opt('int', 'x', '', 1, cb('x'))], cbs=cb('s')),
                                 Opt('func', 'fn', '', None, 'u')])


def expected_log(events, failed):
    out = []
    for k, ev in enumerate(events):
        tag = ' FAIL' if failed and k == len(events) - 1 else ''
        if ev[0] == 'p':
            out.append('cb p %s %s%s' % (enc(ev[1]), enc(ev[2]), tag))
        elif ev[0] == 'f':
            out.append('cb f %s %d%s%s' % (enc(ev[1]), len(ev[2]), ''.join(' ' + enc(a) for a in ev[2]), tag))
        else:
            out.append('cb v %s n=%d%s%s' % (enc(ev[1]), ev[3], (' last=' + ev[4]) if ev[3] else '', tag))
    return out


def collapse(lines):
    """collapse repeated validation calls that see the same state of the same option (the statement fixes
    when a validation call must happen, not how often)"""
    out = []
    for l in lines:
        if l.startswith('cb v ') and out and out[-1] == l:
            continue
        out.append(l)
    return out


def mask_option(dump, name):
    """replace the entry of top-level option <name> in a dump line by name=*"""
    key = enc(name) + '='
    i = dump.find('{' + key)
    if i < 0:
        i = dump.find(' ' + key)
    if i < 0:
        return dump
    i += 1
    j = dump.find('(', i)
    depth, k = 0, j
    while k < len(dump):
        if dump[k] == '(':
            depth += 1
        elif dump[k] == ')':
            depth -= 1
            if depth == 0:
                break
        k += 1
    return dump[:i] + key + '*' + dump[k + 1:]


def evaluate(sch, words, cb_fail, ctxflags=0, pre=None):
    st = new_store(sch, ctxflags)
    if pre:
        RefParser(ctxflags).parse(st, tokens_from_words(pre))     # instances that exist before the callbacks are registered
    p = RefParser(ctxflags, cb_fail=cb_fail)
    res = p.parse(st, tokens_from_words(words))
    return res, st, p


def shard(sh):
    masks, N, prefixes, deadline = sh
    drv = get_driver('asan')
    st = ShardStats('E1 N=%d x failing invocation' % N)
    bypath = N >= 100       # validation callbacks registered with cfg_set_validate_func by schema path instead of in the declarations
    late = N >= 200         # ... after a first parse has already created an instance of the multi section
    N = N % 100
    pre = ['s', '{', '}'] if late else None
    VBITS = {1: b'a', 3: b'l', 4: b's', 6: b's|x'}
    for mask in masks:
        ctxflags = 0
        if isinstance(mask, tuple):
            # an explicit configuration: (reference schema, declared schema, registration lines, context flags)
            sch, decl, reg, ctxflags = mask[:4]
            drv.define_schema(decl.sid, decl.spec())
            alpha = mask[4] if len(mask) > 4 else S.alphabet_for(sch)
            batch = []
        else:
            sch = variant(mask)
        if isinstance(mask, tuple):
            pass
        elif bypath:
            decl = variant(mask & ~sum(1 << b for b in VBITS))
            decl = Schema('G%d' % mask, decl.opts)
            reg = (['parse_buf A ' + enc(b's { }')] if late else []) + ['set_vf A %s 1' % enc(path) for bit, path in sorted(VBITS.items()) if mask >> bit & 1]
        else:
            decl, reg = sch, []
        if not isinstance(mask, tuple):
            drv.define_schema(decl.sid, decl.spec())
            alpha = S.alphabet_for(sch)
            batch = []

        def flush():
            cases = [Case(['init A %s %d' % (decl.sid, ctxflags)] + reg + ['cb_fail %d' % k, 'parse_buf A ' + enc(trace.text_of(words)), 'dump A 0']) for (words, k, _, _, _) in batch]
            for (words, k, res, store, par), c, r in zip(batch, cases, drv.run(cases)):
                st.evaluations += 1
                st.transitions += len(res.events) + 1
                script = 'schema %s %s\n%s' % (decl.sid, decl.spec(), c.script())
                if r.status in ('crash', 'hang'):
                    st.violation('%s:%s' % (r.status, engine.sanitizer_summary(r.info)), script, '', engine.excerpt(r.info))
                    continue
                k0 = max([j for j, l in enumerate(r.lines) if l.startswith('r init') or l.startswith('r set_vf')] or [-1])
                log = collapse([l for l in r.lines[k0 + 1:] if l.startswith('cb ') and not l.startswith('cb r ')])   # releases of pointer values are C07's business   # defaults are converted (and logged) inside cfg_init
                rcs = r.all('r parse_buf')
                rc = rcs[-1] if rcs else None
                dump = r.first('dump ')
                st.outcome('%s %s' % (rc, ' '.join(log)))
                if res.verdict == UNSPEC:
                    st.unspec += 1
                    continue
                st.validated += 1
                failed = k > 0 and par.cb_seen >= k
                exp = collapse(expected_log(res.events, failed))
                want_rc = 'r parse_buf 0' if res.verdict == ACCEPT else 'r parse_buf 1'
                st.nontriv(' '.join(exp) + want_rc)
                label = 'fail@%d' % k if failed else 'nofail'
                if log != exp:
                    st.violation('callback-trace:%s' % label, script, '\n'.join(exp) or '(no callback)', '\n'.join(log) or '(no callback)')
                    continue
                if rc != want_rc:
                    st.violation('verdict-not-binding:%s' % label, script, want_rc, rc or '')
                    continue
                if res.verdict == ACCEPT:
                    want = 'dump ' + dump_sec(store, 0)
                    if dump != want:
                        st.violation('stored-value:%s' % label, script, want, dump or '')
                elif failed and par.cur_top is not None:
                    want = mask_option('dump ' + dump_sec(store, 0), par.cur_top)
                    got = mask_option(dump or '', par.cur_top)
                    if got != want:
                        st.violation('later-item-applied-or-earlier-lost:%s' % label, script, want, got)
                    elif dump != 'dump ' + dump_sec(store, 0):
                        # the item in which the invocation failed: what was stored before it stays, a refused value is never stored
                        # (no element that no callback produced), a value refused by its validation is the last one stored
                        st.violation('failing-item-state:%s' % label, script, 'dump ' + dump_sec(store, 0), dump or '')
                if len(st.samples) < 1 and failed and len(res.events) >= 3:
                    st.samples.append({'schema_callbacks': sch.spec() if isinstance(mask, tuple) else [SLOTS[j] for j in range(len(SLOTS)) if mask >> j & 1], 'text': trace.text_of(words),
                                       'failing_invocation': k, 'expected_log': exp, 'expected_rc': want_rc})
            del batch[:]

        for prefix in prefixes:
            for node in trace.e1(sch, ctxflags, alpha, N, prefix):
                words = node.words
                res0, store0, par0 = evaluate(sch, words, 0, ctxflags, pre)
                K = par0.cb_seen
                batch.append((words, 0, res0, store0, par0))
                for k in range(1, K + 1):
                    res, store, par = evaluate(sch, words, k, ctxflags, pre)
                    batch.append((words, k, res, store, par))
                if len(batch) >= 300:
                    flush()
                    if time.time() > deadline:
                        st.complete = False
                        break
            if not st.complete:
                break
        if batch:
            flush()
        if not st.complete:
            break
    return st.result([drv])


W = Schema('W1', [Opt('int', 'i', '', 5, 'w'), Opt('int', 'il', 'L', [b'1', b'2'], 'w'), Opt('float', 'f', '', 1.5, 'w'), Opt('str', 's', '', b'd', 'w'),
                  Opt('str', 'sl', 'L', None, 'w'), Opt('sec', 'sec', '', sub=[Opt('int', 'x', '', 1, 'w')])])


def shard_preset(sh):
    deadline = sh
    drv = get_driver('asan')
    drv.define_schema('W1', W.spec())
    st = ShardStats('pre-set validation')
    calls = [('setint A %s 7' % enc(b'i'), 'i', 'int', '7', None), ('setint A %s 7 0' % enc(b'il'), 'il', 'int', '7', 0), ('setint A %s 7 1' % enc(b'il'), 'il', 'int', '7', 1),
             ('setint A %s 7 5' % enc(b'il'), 'il', 'int', '7', 5), ('setfloat A %s 2.5' % enc(b'f'), 'f', 'float', '2.5', None),
             ('setstr A %s %s' % (enc(b's'), enc(b'v')), 's', 'str', enc(b'v'), None), ('setstr A %s %s 0' % (enc(b'sl'), enc(b'v')), 'sl', 'str', enc(b'v'), 0),
             ('setint A %s 7' % enc(b'sec|x'), 'sec|x', 'int', '7', None),
             ('setstr A %s ~' % enc(b's'), 's', 'str', '~', None), ('setstr A %s ~ 0' % enc(b'sl'), 'sl', 'str', '~', 0)]      # NULL is a value too: the callback sees it
    # prior states: pristine; set to other values; parsed; already holding exactly the value about to be set (from a text, from setters)
    same_text = b'i = 7 il = {7, 7} f = 2.5 s = v sl = {v} sec { x = 7 }'
    same_set = ['setint A %s 7' % enc(b'i'), 'setint A %s 7 0' % enc(b'il'), 'setint A %s 7 1' % enc(b'il'), 'setfloat A %s 2.5' % enc(b'f'),
                'setstr A %s %s' % (enc(b's'), enc(b'v')), 'setstr A %s %s 0' % (enc(b'sl'), enc(b'v')), 'setint A %s 7' % enc(b'sec|x')]
    for pre in ([], ['setint A %s 9' % enc(b'i'), 'setint A %s 9 0' % enc(b'il')], ['parse_buf A ' + enc(b'il += {3} sec { x = 4 } sl = {a}')],
                ['parse_buf A ' + enc(same_text)], same_set):
        for mode in (0, 1, 2):
            for (line, name, kind, val, idx) in calls:
                snapref = 'A/' + '/'.join((enc(p.encode())[1:] + ('.0' if k < len(name.split('|')) - 1 else '')) for k, p in enumerate(name.split('|')))
                c = Case(['init A W1 0'] + pre + ['snapshot ' + snapref, 'w_mode %d' % mode, 'note call', line, 'snapshot ' + snapref])
                r = drv.run([c])[0]
                st.evaluations += 1
                st.transitions += 1
                st.validated += 1
                script = 'schema W1 %s\n%s' % (W.spec(), c.script())
                if r.status in ('crash', 'hang'):
                    st.violation('%s:%s' % (r.status, engine.sanitizer_summary(r.info)), script, '', engine.excerpt(r.info))
                    continue
                snaps = r.all('snap ')
                first_snap = next(k for k, l in enumerate(r.lines) if l.startswith('snap '))
                logs = [l for l in r.lines[first_snap:] if l.startswith('cb w ')]        # invocations made by the call itself
                rc = [l for l in r.lines if l.startswith('r set')][-1]
                leaf = name.split('|')[-1]
                st.outcome('%d %s %s' % (mode, rc, snaps[-1]))
                st.nontriv('%d %s %s' % (mode, line, ' '.join(pre)))
                want_log = 'cb w %s %s mode=%d' % (enc(leaf.encode()), val, mode)
                if not logs or logs[-1] != want_log:
                    st.violation('preset-callback-not-called', script, want_log, ' '.join(logs))
                    continue
                if mode == 1:
                    if not rc.endswith(' -1') or snaps[0] != snaps[1]:
                        st.violation('veto-not-binding', script, 'failure, option unchanged: ' + snaps[0], rc + ' ' + snaps[1])
                else:
                    stored = val
                    if mode == 2 and kind == 'int':
                        stored = '4242'
                    if mode == 2 and kind == 'float':
                        stored = '42.5'
                    if not rc.endswith(' 0'):
                        st.violation('setter-failed', script, 'success', rc)
                        continue
                    m = re.search(r'vals=\((.*)\) comment', snaps[1])
                    vals = m.group(1).split(',') if m and m.group(1) else []
                    if stored not in vals:
                        st.violation('rewritten-value-not-stored' if mode == 2 else 'value-not-stored', script, stored + ' among the values', snaps[1])
    # a pre-set callback that is cleared again (cfg_set_validate_func2 with NULL) is gone: no invocation, the value is stored as given
    for mode in (1, 2):
        for (line, name, kind, val, idx) in calls:
            if val == '~':
                continue
            snapref = 'A/' + '/'.join((enc(p.encode())[1:] + ('.0' if k < len(name.split('|')) - 1 else '')) for k, p in enumerate(name.split('|')))
            c = Case(['init A W1 0', 'set_vf2 A %s 0' % enc(name.encode()), 'snapshot ' + snapref, 'w_mode %d' % mode, 'note call', line, 'snapshot ' + snapref])
            r = drv.run([c])[0]
            st.evaluations += 1
            st.transitions += 1
            st.validated += 1
            script = 'schema W1 %s\n%s' % (W.spec(), c.script())
            if r.status in ('crash', 'hang'):
                st.violation('%s:%s' % (r.status, engine.sanitizer_summary(r.info)), script, '', engine.excerpt(r.info))
                continue
            snaps = r.all('snap ')
            first_snap = next(k for k, l in enumerate(r.lines) if l.startswith('snap '))
            logs = [l for l in r.lines[first_snap:] if l.startswith('cb w ')]
            rc = [l for l in r.lines if l.startswith('r set') and not l.startswith('r set_vf')][-1]
            cleared = r.first('r set_vf2')
            st.outcome('cleared %d %s %s' % (mode, rc, snaps[-1]))
            st.nontriv('cleared %d %s' % (mode, line))
            m = re.search(r'vals=\((.*)\) comment', snaps[1])
            vals = m.group(1).split(',') if m and m.group(1) else []
            if cleared != 'r set_vf2 1':
                st.violation('clearing-does-not-return-the-old-callback', script, 'r set_vf2 1', cleared or '')
            elif logs or not rc.endswith(' 0') or val not in vals:
                st.violation('cleared-preset-callback-still-used', script, 'no invocation, success, %s among the values' % val, ' '.join(logs) + ' ' + rc + ' ' + snaps[1])
    st.samples.append({'preset': 'cfg_setnint(il, 7, 1) with the pre-set callback in mode pass / veto / rewrite'})
    return st.result([drv])


def main():
    ck = engine.Check(PID)
    if ck.replay:
        engine.replay_file(ck.replay)
        return
    engine.build(['asan'])
    quick = ck.tier == 'quick'
    dl = ck.deadline
    engine.phase(ck, 'pre-set validation: setters x {pass, veto, rewrite} x 5 prior states', shard_preset, [dl])
    def main_phase(N):
        shards = []
        full = variant(127)
        alpha = S.alphabet_for(full)
        inner, frontier = trace.viable_prefixes(full, 0, alpha, 2)
        for masks in engine.chunks(list(range(128)), 4):
            shards.append((masks, 0, inner, dl))
            for ch in engine.chunks(frontier, 12):
                shards.append((masks, N, ch, dl))
        engine.phase(ck, 'E1 N=%d x 128 callback subsets x failing invocation k = 0..K' % N, shard, shards, subsets=128)
    Ns = [4, 5, 6] if quick else [5, 6, 7]
    main_phase(Ns[0])
    # function calls need many tokens each: a reduced alphabet, deeper (several calls on one level, calls inside a section)
    fsch = variant(0b1000000)
    falpha = ['fn', '(', ')', ',', '7', 't1', 's', '{', '}', 'x', '=']
    Nf = 11 if quick else 13
    inner, frontier = trace.viable_prefixes(fsch, 0, falpha, 3)
    shards = [([(fsch, fsch, [], 0, falpha)], 0, inner, dl)] + [([(fsch, fsch, [], 0, falpha)], Nf, ch, dl) for ch in engine.chunks(frontier, 2)]
    engine.phase(ck, 'E1 N=%d over the function-call alphabet (several calls per level, calls inside sections)' % Nf, shard, shards, alphabet=len(falpha))
    # the same with the validation callbacks registered by schema path (cfg_set_validate_func) before the parse
    Nb = 4 if quick else 6
    shards = []
    full = variant(127)
    alpha = S.alphabet_for(full)
    inner, frontier = trace.viable_prefixes(full, 0, alpha, 2)
    vmasks = [m for m in range(128) if m & 0b1011010]
    for masks in engine.chunks(vmasks, 4):
        shards.append((masks, 100, inner, dl))
        for ch in engine.chunks(frontier, 12):
            shards.append((masks, 100 + Nb, ch, dl))
    engine.phase(ck, 'E1 N=%d with validation callbacks registered by schema path (cfg_set_validate_func)' % Nb, shard, shards, subsets=len(vmasks))
    shards = []
    smasks = [m for m in range(128) if m & 0b1010000 and not m & 0b0100101]      # validation slots only, the section or its child among them
    Nl = 6 if quick else 7
    for masks in engine.chunks(smasks, 1):
        shards.append((masks, 200, inner, dl))
        for ch in engine.chunks(frontier, 6):
            shards.append((masks, 200 + Nl, ch, dl))
    engine.phase(ck, 'E1 N=%d, registration by path after an instance of the multi section exists' % Nl, shard, shards, subsets=len(smasks))
    # other option kinds with parse callbacks, a single section addressed by path, case-insensitive registration
    from model import CFGF
    K = lambda cbf, cbb, cbt, cbtl, cby, sid: Schema(sid, [Opt('float', 'f', '', 1.5, cbf), Opt('bool', 'b', '', False, cbb), Opt('str', 't', '', b'd', cbt),
                                                          Opt('str', 'tl', 'L', [b'a'], cbtl), Opt('ptr', 'q', '', None, 'pf'),
                                                          Opt('sec', 'g', '', sub=[Opt('int', 'y', '', 1, cby)], cbs='v' if cby and sid.endswith('g') else '')])
    confs = []
    confs.append((K('p', 'p', 'pv', 'pv', 'v', 'K1'), K('p', 'p', 'pv', 'pv', 'v', 'K1'), [], 0))
    confs.append((K('pv', 'pv', 'p', 'p', 'pv', 'K2g'), K('pv', 'pv', 'p', 'p', 'pv', 'K2g'), [], 0))
    confs.append((K('v', 'v', 'v', 'v', 'v', 'K3g'), K('', '', '', '', '', 'K3d'), ['set_vf A %s 1' % enc(x) for x in (b'f', b'b', b't', b'tl', b'g|y', b'g')], 0))
    confs.append((K('v', '', 'v', '', 'v', 'K4'), K('', '', '', '', '', 'K4d'), ['set_vf A %s 1' % enc(x) for x in (b'F', b'T', b'G|Y')], CFGF['NOCASE']))
    # a parse callback may produce any double: infinity is stored as produced, validated, and the parse goes on
    K7 = K('pv', 'p', 'p', 'p', 'v', 'K7')
    confs.append((K7, K7, [], 0, S.alphabet_for(K7) + ['INF']))
    # a validation callback that is cleared again (NULL) is gone
    confs.append((K('p', 'p', 'p', 'p', '', 'K6'), K('pv', 'pv', 'pv', 'pv', 'v', 'K6d'), ['set_vf A %s 0' % enc(x) for x in (b'f', b'b', b't', b'tl', b'g|y')], 0))
    # deprecated / dropped options keep their callbacks: the value is converted and validated before it is dropped
    D5 = Schema('K5', [Opt('int', 'd', 'D', 5, 'pv'), Opt('int', 'dx', 'DX', 5, 'pv'), Opt('int', 'dl', 'LDX', [b'1'], 'pv'), Opt('int', 'z', '', 3, 'v')])
    confs.append((D5, D5, [], 0))
    # an integer parse callback may produce any long: what it produced is what is stored and what the validation sees
    K9 = Schema('K9', [Opt('int', 'a', '', 5, 'pv'), Opt('int', 'l', 'L', [b'1'], 'pv'), Opt('sec', 's', 'M', sub=[Opt('int', 'x', '', 1, 'pv')])])
    confs.append((K9, K9, [], 0, S.alphabet_for(K9) + ['BIG', 'I31', 'U32', 'NEG', 'HUGE']))
    # 'simple' options (the value lives in the caller's variable) are validated like any other
    K10 = Schema('K10', [Opt('int', 'n', 'S', None, 'v'), Opt('str', 't', 'S', None, 'v'), Opt('int', 'a', '', 5, 'v'), Opt('int', 'z', '', 3)])
    confs.append((K10, K10, [], 0))
    # pointer values, scalar and list: the object a parse callback makes is stored, released when replaced, never half-stored
    K8 = Schema('K8', [Opt('ptr', 'q', '', None, 'pf'), Opt('ptr', 'ql', 'L', None, 'pf'), Opt('int', 'z', '', 3, 'v')])
    Nk = 4 if quick else 6
    shards = []
    a8 = ['q', 'ql', '=', '+=', '{', '}', ',', 'a', 'z']
    inner, frontier = trace.viable_prefixes(K8, 0, a8, 3)
    shards.append(([(K8, K8, [], 0, a8)], 0, inner, dl))
    for ch in engine.chunks(frontier, 2):
        shards.append(([(K8, K8, [], 0, a8)], 8 if quick else 9, ch, dl))
    for conf in confs:
        alpha = S.alphabet_for(conf[0])
        inner, frontier = trace.viable_prefixes(conf[0], conf[3], alpha, 2)
        shards.append(([conf], 0, inner, dl))
        for ch in engine.chunks(frontier, 6):
            shards.append(([conf], Nk, ch, dl))
    engine.phase(ck, 'E1 N=%d: float / bool / string / pointer parse callbacks, a single section addressed by path, registration under CFGF_NOCASE, deprecated / dropped options' % Nk,
                 shard, shards, configurations=len(confs))
    for N in Ns[1:]:
        main_phase(N)       # the deeper bounds last: everything above has run when the deadline cuts them short
    ck.assumptions = ['validation calls: the log is compared after collapsing consecutive identical calls (same option, same count, same last value)']
    ck.finish('schema variant (subset of 7 callback slots) x E1 token sequence x index of the failing invocation; non-trivial = distinct (expected log, verdict)')


if __name__ == '__main__':
    main()
