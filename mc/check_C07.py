#!/usr/bin/env python3
"""C07 - everything acquired is released exactly once on every path.

(1) E1/E2 token enumerations over schemas with pointer values + release callback, functions with
    arguments, annotations, a search path; every node is a text cut / corrupted at that token;
(2) the same texts inside included files (abort inside the included file);
(3) the API operation search of C09 (bounded depth) with search path, annotations and pointer options.
Oracle: the hygiene record after cfg_free - no live library block, no open FILE, descriptor count back,
every pointer value released exactly once, no release of a foreign / dead value, ASan silent.
"""
import sys, os, time, itertools, re
sys.path.insert(0, os.path.dirname(os.path.abspath(__file__)))
import engine
from engine import Case, enc, ShardStats, get_driver
from model import ACCEPT, REJECT, INCOMPLETE, UNSPEC, CFGF, Opt, Schema
import schemas as S
import trace
import apibfs

PID = 'C07'
FAM = {s.sid: s for s in S.family_F()}
FAM['P1'] = Schema('P1', [Opt('ptr', 'p', '', None, 'pf'), Opt('ptr', 'pl', 'L', None, 'pf'),
                          Opt('sec', 'm', 'MT', sub=[Opt('ptr', 'q', 'L', None, 'pf'), Opt('str', 's', '', b'd')]),
                          Opt('func', 'fn', '', None, 'u')])
FAM['I1'] = Schema('I1', [Opt('func', 'include', '', None, 'i'), Opt('int', 'i', '', 5), Opt('str', 's', '', b'q'),
                          Opt('sec', 'sec', '', sub=[Opt('int', 'x', '', 1), Opt('func', 'include', '', None, 'i')]), Opt('sec', 'm', 'M', sub=[Opt('int', 'x', '', 1), Opt('func', 'include', '', None, 'i'), Opt('int', 'ml', 'L', [b'1', b'2'])])])
USE = ['P1', 'F13', 'F17', 'F07', 'F08', 'F09', 'F10', 'F12', 'F15', 'F16', 'F18', 'F05']
BATCH = 300
HYG = re.compile(r'hyg lex=(\d+),(\d+),(\d+),(\d+) lib=(\d+) scan=(\d+) files=(\d+) fds=(-?\d+) ptr=(-?\d+),(\d+) foreign=(\d+) dclose=(\d+)')


def judge(st, sid, case, res, label):
    st.evaluations += 1
    st.validated += 1
    script = 'schema %s %s\n%s' % (sid, FAM[sid].spec(), case.script())
    if res.status in ('crash', 'hang'):
        st.violation('%s:%s' % (res.status, engine.sanitizer_summary(res.info)), script, 'clean run', engine.excerpt(res.info))
        return
    hyg = res.first('hyg ')
    m = HYG.match(hyg or '')
    if not m:
        st.violation('protocol', script, 'hyg line', res.text()[-500:])
        return
    g = [int(x) for x in m.groups()]
    lex, lib, scan, files, fds, plive, pbad, foreign, dclose = g[0:4], g[4], g[5], g[6], g[7], g[8], g[9], g[10], g[11]
    st.outcome(hyg.split(' auto=')[0])
    leaks = res.all('leak ')
    if lib or scan:
        site = leaks[0].split(' ')[1] if leaks else '?'
        st.violation('leak@%s' % site.split(':')[0], script, 'lib=0 scan=0', hyg + '\n' + '\n'.join(leaks))
    elif files or fds:
        st.violation('handle-leak', script, 'files=0 fds=0', hyg)
    elif plive:
        st.violation('ptr-value-not-released', script, 'ptr=0,0', hyg)
    elif pbad or foreign or dclose:
        st.violation('bad-release', script, 'no double / foreign release', hyg)
    elif lex[2] or lex[1] or lex[3]:
        st.violation('scanner-resources-left', script, 'include stack empty, no buffer', hyg)


def make_case(sid, flags, text, path=False, do_print=True, pre=()):
    lines = list(pre) + ['init A %s %d' % (sid, flags), 'cb_quiet 1']
    if path:
        lines.append('addpath A ' + enc(b'/verif/build'))
        lines.append('addpath A ' + enc(b'/nonexistent'))
    lines.append('parse_buf A ' + enc(text))
    if do_print:
        lines.append('print A')
    lines.append('free A')
    return Case(lines)


def reduced_alphabet(sch):
    return [n.decode('latin-1') for n in sch.all_names()] + ['7', 't1', '=', '+=', '{', '}', '(', ')']


def shard_e1(shard):
    sid, flags, path, N, prefixes, deadline = shard
    sch = FAM[sid]
    drv = get_driver('asan')
    drv.define_schema(sid, sch.spec())
    st = ShardStats('E1 N=%d' % N)
    cw = N >= 1000          # comment words in the alphabet: annotations are allocated, replaced and released too
    N = N % 1000
    alpha = reduced_alphabet(sch) if N >= 100 else S.alphabet_for(sch)
    N = N % 100
    if cw and flags & CFGF['COMMENTS']:
        alpha = alpha + ['/*c*/', '#d\n']
    buf = []

    def flush():
        cases = [make_case(sid, flags, trace.text_of(n.words), path) for n in buf]
        for n, c, r in zip(buf, cases, drv.run(cases)):
            judge(st, sid, c, r, n.verdict)
            st.transitions += 1
            st.nontriv(' '.join(n.words) if n.res.items or n.verdict != ACCEPT else '')
            if len(st.samples) < 1 and n.verdict == INCOMPLETE and len(n.words) >= 4:
                st.samples.append({'schema': sid, 'flags': flags, 'searchpath': path, 'text_cut_here': trace.text_of(n.words)})
        del buf[:]
    for prefix in prefixes:
        for node in trace.e1(sch, flags, alpha, N, prefix):
            buf.append(node)
            if len(buf) >= BATCH:
                flush()
                if time.time() > deadline:
                    st.complete = False
                    break
        if not st.complete:
            break
    if buf:
        flush()
    return st.result([drv])


def shard_e2(shard):
    sid, flags, L, prefix, deadline = shard
    sch = FAM[sid]
    drv = get_driver('asan')
    drv.define_schema(sid, sch.spec())
    st = ShardStats('E2 L=%d' % L)
    alpha = S.alphabet_for(sch)
    buf = []

    def flush():
        cases = [make_case(sid, flags, ' '.join(w), False, False) for w in buf]
        for w, c, r in zip(buf, cases, drv.run(cases)):
            judge(st, sid, c, r, 'E2')
            st.transitions += 1
            st.nontriv(' '.join(w))
        del buf[:]
    for n in range(len(prefix), L + 1):
        for tail in itertools.product(alpha, repeat=n - len(prefix)):
            buf.append(list(prefix) + list(tail))
            if len(buf) >= BATCH:
                flush()
        if time.time() > deadline:
            st.complete = False
            break
    if buf:
        flush()
    if not st.samples:
        st.samples.append({'schema': sid, 'product_prefix': list(prefix), 'L': L})
    return st.result([drv])


def shard_include(shard):
    sid, flags, N, prefixes, deadline = shard
    sch = FAM[sid]
    drv = get_driver('asan')
    drv.define_schema(sid, sch.spec())
    root = engine.worker_root() + '-c07'
    if drv.rootdir != root:
        drv.set_root(root)
    st = ShardStats('E1 N=%d cut inside included files' % N)
    alpha = [w for w in S.alphabet_for(sch) if w not in ('include', '(', ')')]
    buf = []

    def flush():
        cases = []
        for main, files, path in buf:
            pre = ['wipe', 'mkdir ' + enc(b'sp'), 'mkdir ' + enc(b'sp2'), 'mkdir ' + enc(b'adir')] + ['mkfile %s %s' % (enc(n), enc(c)) for n, c in files.items()]
            if path in ('decoy', 'decoy-only'):
                pre.append('mkdir ' + enc(b'sp/a.conf'))          # a directory of the wanted name in the directory searched first
            lines = pre + ['init A %s %d' % (sid, flags), 'cb_quiet 1']
            if path == 'file-first':
                lines.append('parse A ' + enc(b'one.conf'))       # the same context is parsed from a named file first
            elif path:
                lines.append('addpath A ' + enc(root.encode() + b'/sp'))
                lines.append('addpath A ' + enc(root.encode() + b'/sp2'))
            lines += ['parse_buf A ' + enc(main), 'print A', 'free A']
            cases.append(Case(lines))
        for (main, files, path), c, r in zip(buf, cases, drv.run(cases)):
            c.lines = ['root ' + enc(root)] + c.lines
            judge(st, sid, c, r, 'include')
            st.transitions += 1
            st.nontriv(main + b'|' + b'|'.join(files.values()))
            if len(st.samples) < 1 and len(files) > 1:
                st.samples.append({'main': main.decode('latin-1'), 'files': {k.decode(): v.decode('latin-1') for k, v in files.items()}})
        del buf[:]
    for prefix in prefixes:
        for node in trace.e1(sch, flags, alpha, N, prefix):
            T = trace.text_of(node.words).encode('latin-1')
            buf.append((b'include("a.conf")', {b'a.conf': T}, False))
            buf.append((b'i = 7 include("a.conf") i = 8', {b'a.conf': b'include("b.conf")\n', b'b.conf': T}, False))
            buf.append((b'sec { include("a.conf") }', {b'a.conf': T}, False))
            buf.append((b'include("a.conf")', {b'sp/a.conf': T}, True))
            buf.append((b'include("a.conf")', {b'sp2/a.conf': T}, 'decoy'))
            buf.append((T + b' include("a.conf")', {}, 'decoy-only'))
            # a directory, a missing name, a name given twice - named directly, no search path: whatever was opened is closed
            buf.append((T + b' include("adir")', {}, False))
            buf.append((b'sec { include("adir") } ' + T, {}, False))
            buf.append((T + b' include("nope.conf")', {}, False))
            buf.append((b'include("a.conf") ' + T, {b'a.conf': b'm { include("b.conf") }', b'b.conf': b'x = 2'}, False))
            # sections entered from one source and re-entered from another (their file name string changes hands)
            buf.append((b'sec { x = 2 } include("a.conf") sec { x = 3 }', {b'a.conf': T}, False))
            buf.append((T, {b'one.conf': b'sec { x = 2 } m { } s = v\n'}, 'file-first'))
            if len(buf) >= BATCH:
                flush()
                if time.time() > deadline:
                    st.complete = False
                    break
        if not st.complete:
            break
    if buf:
        flush()
    return st.result([drv])


def shard_tilde(shard):
    """file and directory names that begin with a tilde - the caller's own, a known account, an unknown one, with and without a
    rest - through every entry point that expands them: whatever comes back, nothing stays behind"""
    deadline = shard
    drv = get_driver('asan')
    sch = FAM['I1']
    drv.define_schema('I1', sch.spec())
    root = engine.worker_root() + '-c07t'
    if drv.rootdir != root:
        drv.set_root(root)
    st = ShardStats('tilde names')
    names = [b'~', b'~/x.conf', b'~me', b'~me/x.conf', b'~alice/x.conf', b'~nouser', b'~nouser/x.conf', b'~backup.conf', b'~/', b'~me/', b'~nouser/', b'~~', b'~/d/../x.conf']
    pre = ['wipe', 'mkdir ' + enc(b'h/me/d'), 'mkdir ' + enc(b'h/alice'), 'mkfile %s %s' % (enc(b'h/me/x.conf'), enc(b'i = 7\n')),
           'mkfile %s %s' % (enc(b'h/alice/x.conf'), enc(b'i = 8\n')),
           'passwd %s %s' % (enc(b'me'), enc(root.encode() + b'/h/me')), 'passwd %s %s' % (enc(b'alice'), enc(root.encode() + b'/h/alice')), 'me ' + enc(b'me')]
    cases = []
    for n in names:
        cases.append(Case(pre + ['init A I1 0', 'cb_quiet 1', 'tilde ' + enc(n), 'free A']))
        cases.append(Case(pre + ['init A I1 0', 'cb_quiet 1', 'parse A ' + enc(n), 'parse_buf A ' + enc(b'include("' + n + b'") i = 3'), 'print A', 'free A']))
        cases.append(Case(pre + ['init A I1 0', 'cb_quiet 1', 'addpath A ' + enc(n), 'addpath A ' + enc(n), 'parse A ' + enc(b'x.conf'),
                                 'parse_buf A ' + enc(b'sec { include("x.conf") }'), 'searchpath A ' + enc(b'x.conf'), 'print A', 'free A']))
        for m in names[:7]:
            cases.append(Case(pre + ['init A I1 0', 'cb_quiet 1', 'addpath A ' + enc(n), 'addpath A ' + enc(m), 'parse_buf A ' + enc(b'include("' + m + b'")'), 'free A']))
    for c, r in zip(cases, drv.run(cases)):
        c.lines = ['root ' + enc(root)] + c.lines
        judge(st, 'I1', c, r, 'tilde')
        st.transitions += 1
        st.nontriv('\n'.join(c.lines[-6:]))
        if time.time() > deadline:
            st.complete = False
            break
    st.samples.append({'names': [n.decode() for n in names], 'entry_points': ['cfg_tilde_expand', 'cfg_parse', 'include()', 'cfg_add_searchpath', 'cfg_searchpath']})
    return st.result([drv])


def shard_odd(shard):
    """every subset of nine option flags on every option kind, meaningful or not: whatever such a schema makes of a text, cfg_free
    releases all of it"""
    import check_C02 as c02
    items, deadline = shard
    drv = get_driver('asan')
    st = ShardStats('odd flag combinations')
    for (kind, mask) in items:
        sch = c02.odd_schema(kind, mask)
        FAM['ODD'] = sch
        drv.define_schema('ODD', sch.spec())
        cases = []
        for fl in (0, CFGF['COMMENTS'], CFGF['IGNORE_UNKNOWN']):
            for t in c02.ODD_TEXTS:
                cases.append(make_case('ODD', fl, t, path=bool(fl)))
                if fl == 0:
                    cases.append(Case(['init A ODD 0', 'cb_quiet 1', 'parse_buf A ' + enc(t), 'parse_buf A ' + enc(t), 'print A', 'free A']))
        for c, r in zip(cases, drv.run(cases)):
            judge(st, 'ODD', c, r, 'odd')
            st.transitions += 1
        st.nontriv('%s/%d' % (kind, mask))
        if time.time() > deadline:
            st.complete = False
            break
    if not st.samples:
        st.samples.append({'option_kinds': list(c02.ODD_KINDS), 'flag_letters': c02.ODD_FLAGS, 'texts': len(c02.ODD_TEXTS)})
    return st.result([drv])


def main():
    ck = engine.Check(PID)
    if ck.replay:
        engine.replay_file(ck.replay)
        return
    engine.build(['asan'])
    quick = ck.tier == 'quick'
    dl = ck.deadline
    CM = CFGF['COMMENTS']
    def e1_phase(N):
        shards = []
        for sid in USE:
            sch = FAM[sid]
            alpha = S.alphabet_for(sch)
            for flags, path in ((0, False), (CM, True)) + (((CM | CFGF['IGNORE_UNKNOWN'], False),) if N <= 5 else ()):      # skipped items own temporaries too
                inner, frontier = trace.viable_prefixes(sch, flags, alpha, 2)
                NN = N + (1000 if N <= 5 else 0)
                shards.append((sid, flags, path, NN - N, inner, dl))
                for ch in engine.chunks(frontier, 4):
                    shards.append((sid, flags, path, NN, ch, dl))
        engine.phase(ck, 'E1 N=%d (every viable prefix = a cut, every dead token = a corruption)' % N, shard_e1, shards, schemas=len(USE))
    Ns = [4, 5, 6] if quick else [6, 7, 8]
    e1_phase(Ns[0])       # cheapest and most diverse first: the deeper E1 bounds come after the cheap phases below
    import check_C02 as c02
    odd = [(k, m) for k in c02.ODD_KINDS for m in range(1 << len(c02.ODD_FLAGS)) if not (m >> 9 & 1) or k in ('int', 'float', 'bool', 'str')]
    engine.phase(ck, 'every subset of 10 option flags on every option kind (meaningful or not) x 3 context flag sets x %d texts, each also parsed twice' % len(c02.ODD_TEXTS),
                 shard_odd, [(list(c), dl) for c in engine.chunks(odd, 28)], schemas=len(odd))
    sch = FAM['I1']
    alpha = [w for w in S.alphabet_for(sch) if w not in ('include', '(', ')')]
    for N in ([3, 4] if quick else [4, 5]):
        inner, frontier = trace.viable_prefixes(sch, 0, alpha, 2)
        shards = [('I1', 0, 0, inner, dl)] + [('I1', 0, N, ch, dl) for ch in engine.chunks(frontier, 2)]
        engine.phase(ck, 'E1 N=%d inside included files (5 placements)' % N, shard_include, shards)
    engine.phase(ck, 'tilde names (own account, known, unknown, with and without a rest) through cfg_tilde_expand, cfg_parse, include, cfg_add_searchpath', shard_tilde, [dl])
    L = 3 if quick else 4
    shards = []
    for sid in ('P1', 'F13'):
        alpha = S.alphabet_for(FAM[sid])
        for w in alpha:
            shards.append((sid, CM, L, (w,), dl))
    engine.phase(ck, 'E2 full product L=%d' % L, shard_e2, shards)
    # (3) API sequences with a search path, annotations and pointer-valued options
    A2 = Schema('A2', apibfs.A1.opts + [Opt('ptr', 'p', '', None, 'pf'), Opt('ptr', 'pl', 'L', None, 'pf')])
    ops = apibfs.ops_alphabet() + [('setopt', b'p', b'v'), ('setopt', b'pl', b'v'), ('setmulti', b'pl', [b'a', b'b']),
                                   ('setmulti', b'p', [b'a']), ('setcomment', b'mt', b'c'), ('setcomment', b'pl', b'c'),
                                   ('set', 'str', b's', None, None), ('set', 'str', b'sl', None, 0), ('set', 'str', b'sd', None, 1), ('oset', 'str', b'sd', None, 0)]   # NULL over a held string
    apibfs.run_bfs(ck, A2, CM, [b'', b'mt a { x = 3 } mt b { } m { } pl = {q}'], ops, 2 if quick else 3, hygiene=True,
                   setup_lines=['cb_quiet 1', 'addpath A ' + enc(b'/verif/build'), 'addpath A ' + enc(b'/nonexistent')], label='api+hygiene')
    for N_ in Ns[1:]:
        e1_phase(N_)
    # reduced alphabet, deeper: repeated titles (instances replaced in place), re-opened sections, calls - with a search path set
    for N in ([8, 10] if quick else [10, 12]):
        shards = []
        for sid in ['P1', 'F07', 'F08', 'F10', 'F16', 'F18', 'F13', 'F17']:
            sch = FAM[sid]
            alpha = reduced_alphabet(sch)
            inner, frontier = trace.viable_prefixes(sch, 0, alpha, 3)
            cwb = 1000 if N <= 8 else 0
            shards.append((sid, CM, True, 100 + cwb, inner, dl))
            for ch in engine.chunks(frontier, 2):
                shards.append((sid, CM, True, 100 + N + cwb, ch, dl))
        engine.phase(ck, 'E1 reduced alphabet N=%d, search path and annotations on' % N, shard_e1, shards, schemas=8)
    ck.assumptions = ['a counter of live blocks per allocation site is used instead of LeakSanitizer (leaked blocks often stay reachable from scanner globals)',
                      'API part: breadth-first search over the C09 operation alphabet plus pointer-value operations, hygiene judged after every history']
    ck.finish('E1 viable-prefix DFS / E2 product over schemas with pointer values, functions, annotations, search path; included-file placements; '
              'non-trivial = distinct texts with at least one completed item or a rejection')


if __name__ == '__main__':
    main()
