#!/usr/bin/env python3
"""C10 - a rejected update leaves the option exactly as it was.

Every option state reachable by <= 2 builder operations (API calls and parses) x every refusing call
x every position of the offending element.  Oracle: the call reports failure and the raw snapshot of
the option (count, every value in order, annotation, RESET and MODIFIED bits) is identical before and
after."""
import sys, os, time, itertools
sys.path.insert(0, os.path.dirname(os.path.abspath(__file__)))
import engine
from engine import Case, enc, ShardStats, get_driver
from model import Opt, Schema
import refstore

PID = 'C10'
A3 = Schema('A3', [
    Opt('int', 'i', '', 5, 'w'), Opt('int', 'il', 'L', [b'1', b'2'], 'w'), Opt('str', 's', '', b'd', 'w'), Opt('str', 'sl', 'L', None, 'w'),
    Opt('float', 'f', '', 1.5, 'w'), Opt('float', 'fl', 'L', [b'1.5'], 'w'), Opt('bool', 'b', '', False), Opt('bool', 'bl', 'L', [b'true']),
    Opt('int', 'n', 'N', None, 'w'), Opt('sec', 'mt', 'MT', sub=[Opt('int', 'x', '', 1)]),
    Opt('ptr', 'p', '', None, 'pf'), Opt('ptr', 'pl', 'L', None, 'pf'), Opt('int', 'ic', '', 5, 'p'), Opt('str', 'scl', 'L', [b'a'], 'p'),
    Opt('int', 'si', 'S', None, 'w'), Opt('str', 'ss', 'S', None, 'w')])      # "simple" options: the value lives in the caller's variable      # values made by a parse callback

P = lambda text: ('parse', text)


def builders(name):
    if name == 'il':
        return [('setlist', b'il', 'int', []), ('setlist', b'il', 'int', [3]), ('setlist', b'il', 'int', [3, 4, 7]), ('addlist', b'il', 'int', [9]),
                ('setcomment', b'il', b'c'), ('setmulti', b'il', [b'6', b'6']), ('set', 'int', b'il', 8, 0), P(b'il += {4}'), P(b'il = {}')]
    if name == 'fl':
        return [('setlist', b'fl', 'float', []), ('setlist', b'fl', 'float', [2.5, 3.5]), ('addlist', b'fl', 'float', [9.5]),
                ('setcomment', b'fl', b'c'), P(b'fl += {4}')]
    if name == 'bl':
        return [('setlist', b'bl', 'bool', []), ('setlist', b'bl', 'bool', [0, 1]), ('addlist', b'bl', 'bool', [1]), ('setcomment', b'bl', b'c'),
                P(b'bl = {no}')]
    if name == 'sl':
        return [('setlist', b'sl', 'str', [b'a']), ('setlist', b'sl', 'str', [b'a', b'b', b'c']), ('addlist', b'sl', 'str', [b'z']),
                ('setcomment', b'sl', b'c'), P(b'sl = {}')]
    if name == 'i':
        return [('set', 'int', b'i', 7, None), ('setcomment', b'i', b'c'), ('setmulti', b'i', [b'9']), P(b'i = 9'), ('setopt', b'i', b'6')]
    if name == 'n':
        return [('set', 'int', b'n', 7, None), ('setcomment', b'n', b'c'), P(b'n = 9')]
    if name == 'f':
        return [('set', 'float', b'f', 2.5, None), ('setcomment', b'f', b'c'), P(b'f = 9')]
    if name == 'b':
        return [('set', 'bool', b'b', 1, None), ('setcomment', b'b', b'c'), P(b'b = yes')]
    if name == 's':
        return [('set', 'str', b's', b'v', None), ('setcomment', b's', b'c'), P(b's = q'), ('setmulti', b's', [b'm'])]
    if name == 'si':
        return [('set', 'int', b'si', 7, None), P(b'si = 9')]
    if name == 'ss':
        return [('set', 'str', b'ss', b'v', None), P(b'ss = q')]
    if name == 'p':
        return [('setopt', b'p', b'v'), ('setcomment', b'p', b'c'), P(b'p = w')]
    if name == 'pl':
        return [('setopt', b'pl', b'v'), ('setmulti', b'pl', [b'a', b'b']), ('setcomment', b'pl', b'c'), P(b'pl = {}'), P(b'pl += {u}')]
    if name == 'ic':
        return [('setopt', b'ic', b'v'), ('set', 'int', b'ic', 7, None), ('setcomment', b'ic', b'c'), P(b'ic = w')]
    if name == 'scl':
        return [('setopt', b'scl', b'v'), ('setmulti', b'scl', [b'a', b'b']), ('setcomment', b'scl', b'c'), P(b'scl = {}')]
    if name == 'mt':
        return [('addtsec', b'mt', b'a'), ('addtsec', b'mt', b'b'), ('rmnsec', b'mt', 0), ('setcomment', b'mt', b'c'), P(b'mt a { x = 3 }'),
                ('set', 'int', b'mt=a|x', 7, None)]
    raise ValueError(name)


def bad_multis(good, bad, nmax=3):
    out = []
    for n in range(1, nmax + 1):
        for combo in itertools.product([good, bad], repeat=n):
            if bad in combo:
                out.append(list(combo))
    return out


def refusals(name):
    """(label, w_mode, op) - every one must fail and change nothing"""
    R = []
    if name in ('p', 'pl', 'ic', 'scl'):
        # the option's own parse callback refuses the text: the k-th conversion of the call fails (label cbfail<k>)
        nm = name.encode()
        R.append(('callback-refuses-text', 0, ('setopt', nm, b'zz'), 'cbfail1'))
        for n in ((1, 2, 3) if name in ('pl', 'scl') else (1,)):
            for k in range(1, n + 1):
                R.append(('bulk-set-callback-refuses@%d/%d' % (k, n), 0, ('setmulti', nm, [b'q%d' % j for j in range(n)]), 'cbfail%d' % k))
        R.append(('bulk-set-empty', 0, ('setmulti', nm, []), None))
        R.append(('section-call-on-value', 0, ('addtsec', nm, b'a'), None))
        if name in ('pl', 'scl'):
            # the variadic list calls on a list whose values a callback makes: whether they are refused is not described -
            # but IF the call reports failure, the option is what it was
            R.append(('list-set-if-refused', 0, ('setlist', nm, 'str', [b'x']), 'optional'))
            R.append(('list-set-2-if-refused', 0, ('setlist', nm, 'str', [b'x', b'y']), 'optional'))
            R.append(('list-append-if-refused', 0, ('addlist', nm, 'str', [b'x']), 'optional'))
        return R
    kind = {'i': 'int', 'il': 'int', 'n': 'int', 'f': 'float', 'fl': 'float', 'b': 'bool', 'bl': 'bool', 's': 'str', 'sl': 'str', 'si': 'int', 'ss': 'str'}.get(name)
    val = {'int': 7, 'float': 2.5, 'bool': 1, 'str': b'v'}.get(kind)
    nm = name.encode()
    lst = name in ('il', 'fl', 'bl', 'sl')
    if name == 'mt':
        R.append(('add-existing-title', 0, ('addtsec', b'mt', b'a'), 'needs-a'))
        R.append(('remove-missing-title', 0, ('rmtsec', b'mt', b'zz'), None))
        # the context is case-sensitive (flags 0) and no history creates a title 'A': with or without an instance 'a' the title
        # 'A' is missing, and a removal by it is refused and leaves 'a' alone
        R.append(('remove-case-variant-title', 0, ('rmtsec', b'mt', b'A'), None))
        R.append(('remove-missing-index', 0, ('rmnsec', b'mt', 9), None))
        R.append(('remove-missing-path', 0, ('rmsec', b'mt=zz'), None))
        R.append(('wrong-type-setter', 0, ('set', 'int', b'mt', 7, None), None))
        R.append(('bulk-set-empty', 0, ('setmulti', b'mt', []), None))
        return R
    # bulk set with an unconvertible element at every position
    if kind in ('int', 'float', 'bool'):
        good = {'int': b'3', 'float': b'3.5', 'bool': b'on'}[kind]
        for texts in bad_multis(good, b'x', 3):      # scalars too: an unconvertible element anywhere refuses the whole call
            R.append(('bulk-set-bad@%s' % ''.join('g' if t == good else 'B' for t in texts), 0, ('setmulti', nm, texts), None))
        R.append(('set-from-text-unconvertible', 0, ('setopt', nm, b'x'), None))
        if kind == 'int':
            R.append(('set-from-text-out-of-range', 0, ('setopt', nm, b'99999999999999999999'), None))
            R.append(('set-from-text-trailing-garbage', 0, ('setopt', nm, b'12z'), None))
            R.append(('set-from-text-empty', 0, ('setopt', nm, b''), None))
        if kind == 'float':
            # every way a float text is refused: not a numeral, out of range either way, the spellings strtod() knows besides numerals
            for bad in (b'1e999', b'-1e999', b'1e-999', b'nan', b'NaN', b'inf', b'-infinity', b'+Inf', b'1.5x', b''):
                R.append(('set-from-text-refused-float:%s' % bad.decode(), 0, ('setopt', nm, bad), None))
                R.append(('bulk-set-refused-float:%s' % bad.decode(), 0, ('setmulti', nm, [b'3.5', bad] if lst else [bad]), None))
        if kind == 'bool':
            for bad in (b'2', b'tru', b'', b'yess'):
                R.append(('set-from-text-refused-bool:%s' % bad.decode(), 0, ('setopt', nm, bad), None))
    R.append(('bulk-set-empty', 0, ('setmulti', nm, []), None))
    # pre-set veto (by-name setters of int / float / str carry the callback)
    if kind in ('int', 'float', 'str'):
        R.append(('veto', 1, ('set', kind, nm, val, None), None))
        if lst:
            for idx in (0, 1, 5):
                R.append(('veto-index-%d' % idx, 1, ('set', kind, nm, val, idx), None))
    # wrong type
    for other in ('int', 'float', 'bool', 'str'):
        if other != kind:
            R.append(('wrong-type-%s' % other, 0, ('set', other, nm, {'int': 7, 'float': 2.5, 'bool': 1, 'str': b'v'}[other], None), None))
            R.append(('wrong-type-%s-opt' % other, 0, ('oset', other, nm, {'int': 7, 'float': 2.5, 'bool': 1, 'str': b'v'}[other], 0), None))
    # illegal index on a scalar
    if not lst:
        for idx in (1, 5):
            R.append(('index-%d-on-scalar' % idx, 0, ('set', kind, nm, val, idx), None))
            R.append(('index-%d-on-scalar-opt' % idx, 0, ('oset', kind, nm, val, idx), None))
        R.append(('list-call-on-scalar', 0, ('setlist', nm, kind, [val]), None))
        R.append(('list-append-on-scalar', 0, ('addlist', nm, kind, [val]), None))
    R.append(('section-call-on-value', 0, ('addtsec', nm, b'a'), None))
    R.append(('section-remove-on-value', 0, ('rmnsec', nm, 0), None))
    return R


def line_of(op):
    if op[0] == 'parse':
        return 'parse_buf A ' + enc(op[1]), 'r parse_buf'
    return refstore.driver_line(op)


FAILS = {'r addtsec': '0', 'r setopt': '0'}


def shard(sh):
    name, histories, deadline = sh
    drv = get_driver('asan')
    drv.define_schema('A3', A3.spec())
    st = ShardStats('states <= 2 builder ops')
    refs = refusals(name)
    cases, metas = [], []
    for hist in histories:
        for (label, wmode, op, need) in refs:
            if need == 'needs-a' and not any(h == ('addtsec', b'mt', b'a') or h == P(b'mt a { x = 3 }') for h in hist):
                continue
            if need == 'needs-a' and any(h == ('rmnsec', b'mt', 0) for h in hist):
                continue
            lines = ['init A A3 0', 'cb_quiet 1']
            for h in hist:
                lines.append(line_of(h)[0])
            lines.append('snapshot A/%s' % name)
            lines.append('dump A 7')
            lines.append('w_mode %d' % wmode)
            l, prefix = line_of(op)
            if need and need.startswith('cbfail'):
                lines.append('cb_fail %s' % need[6:])
            lines.append('note refused call')
            lines.append(l)
            lines.append('snapshot A/%s' % name)
            lines.append('dump A 7')
            cases.append(Case(lines))
            metas.append((label, prefix, hist))
    results = drv.run(cases)
    for c, r, (label, prefix, hist) in zip(cases, results, metas):
        st.evaluations += 1
        st.transitions += 1
        st.validated += 1
        script = 'schema A3 %s\n%s' % (A3.spec(), c.script())
        if r.status in ('crash', 'hang'):
            st.violation('%s:%s' % (r.status, engine.sanitizer_summary(r.info)), script, 'failure return', engine.excerpt(r.info))
            continue
        snaps = r.all('snap ')
        dumps = r.all('dump ')
        # the refused call is the last 'r <op>' line before the second snapshot
        idx = [k for k, l in enumerate(r.lines) if l.startswith('snap ')]
        rl = None
        if len(idx) == 2:
            for l in r.lines[idx[0]:idx[1]]:
                if l.startswith(prefix + ' '):
                    rl = l
        if len(snaps) != 2 or rl is None:
            st.violation('protocol', script, '2 snapshots', r.text()[-400:])
            continue
        rc = rl.split(' ')[2]
        failed = rc == FAILS.get(prefix, '-1')
        st.outcome('%s %s' % (rc, snaps[0]))
        st.nontriv('%s|%s' % (name, snaps[0]))
        if not failed:
            if label.endswith('-if-refused'):
                st.unspec += 1
                continue
            st.violation('not-refused:%s' % label.split('@')[0], script, 'failure return (%s)' % label, rl)
            continue
        if snaps[0] != snaps[1]:
            st.violation('option-changed:%s' % label.split('@')[0], script, snaps[0], snaps[1] + '   (%s)' % label)
            continue
        if dumps[0] != dumps[1]:
            st.violation('other-option-changed:%s' % label.split('@')[0], script, dumps[0], dumps[1])
        if len(st.samples) < 1 and len(hist) == 2:
            st.samples.append({'option': name, 'state_built_by': [repr(h) for h in hist], 'refused_call': label, 'snapshot': snaps[0]})
    return st.result([drv])


# ---- titled sections at every depth, in case-sensitive and case-insensitive contexts
T3 = Schema('T3', [Opt('sec', 'mt', 'MT', sub=[Opt('int', 'x', '', 1), Opt('sec', 'in', 'MT', sub=[Opt('int', 'y', '', 2)])]),
                   Opt('sec', 'sec', '', sub=[Opt('sec', 'in', 'MT', sub=[Opt('int', 'y', '', 2)])]),
                   Opt('sec', 'm', 'M', sub=[Opt('sec', 'in', 'MT', sub=[Opt('int', 'y', '', 2), Opt('sec', 'deep', 'MT', sub=[Opt('int', 'z', '', 3)])])])])
NOCASE = 4


def shard_titles(sh):
    """adding a section whose title exists - at the top level, below a single section, below instances of multi sections, two
    and three levels down; in a case-insensitive context a title in another letter case exists just the same"""
    deadline = sh
    drv = get_driver('asan')
    drv.define_schema('T3', T3.spec())
    st = ShardStats('titled sections at every depth')
    setup = b'mt a { in a { } in b { y = 5 } } mt b { } sec { in a { y = 6 } in b { } } m { in a { deep a { z = 7 } deep b { } } in b { } } m { }'
    targets = [(b'mt', 'A/mt'), (b'mt=a|in', 'A/mt.0/in'), (b'sec|in', 'A/sec.0/in'), (b'm|in', 'A/m.0/in'), (b'm=0|in=a|deep', 'A/m.0/in.0/deep')]
    for flags in (0, NOCASE):
        for (path, ref) in targets:
            for first in (b'a', b'b'):
                variants = [first] + ([first.upper()] if flags else [])
                for title in variants:
                    for pre in ([], ['setint A %s 9' % enc(path + b'=' + first + b'|' + {b'mt': b'x', b'deep': b'z'}.get(path.split(b'|')[-1].split(b'=')[0], b'y'))]):
                        lines = ['init A T3 %d' % flags, 'cb_quiet 1', 'parse_buf A ' + enc(setup)] + pre
                        lines += ['snapshot ' + ref, 'dump A 7', 'note refused call', 'addtsec A %s %s' % (enc(path), enc(title)), 'snapshot ' + ref, 'dump A 7']
                        c = Case(lines)
                        r = drv.run([c])[0]
                        st.evaluations += 1
                        st.transitions += 1
                        st.validated += 1
                        script = 'schema T3 %s\n%s' % (T3.spec(), c.script())
                        if r.status in ('crash', 'hang'):
                            st.violation('%s:%s' % (r.status, engine.sanitizer_summary(r.info)), script, 'failure return', engine.excerpt(r.info))
                            continue
                        snaps, dumps = r.all('snap '), r.all('dump ')
                        rl = [l for l in r.lines if l.startswith('r addtsec ')]
                        if len(snaps) != 2 or len(dumps) != 2 or not rl:
                            st.violation('protocol', script, '2 snapshots', r.text()[-400:])
                            continue
                        st.outcome(rl[-1] + snaps[0])
                        st.nontriv('%d|%s|%s' % (flags, path, title))
                        if rl[-1] != 'r addtsec 0':
                            st.violation('not-refused:add-existing-title:depth', script, 'failure return', rl[-1])
                        elif snaps[0] != snaps[1]:
                            st.violation('option-changed:add-existing-title:depth', script, snaps[0], snaps[1])
                        elif dumps[0] != dumps[1]:
                            st.violation('other-option-changed:add-existing-title:depth', script, dumps[0], dumps[1])
        # removing / addressing an instance that does not exist, by an index that is out of range in every way (beyond the count,
        # negative, wrapping to a valid one when cut to 32 bits)
        for call in ['rmsec A ' + enc(b'm=' + ix) for ix in (b'2', b'99', b'-1', b'4294967296', b'4294967297', b'18446744073709551616', b'-4294967296')] + \
                    ['rmsec A ' + enc(b'm=0|in=a|deep=' + ix) for ix in (b'zz',)] + \
                    ['setint A %s 9' % enc(b'm=' + ix + b'|in=a|deep=a|z') for ix in (b'2', b'4294967296', b'4294967297')] + \
                    ['rmnsec A %s %s' % (enc(b'm'), ix) for ix in ('2', '99', '4294967295')]:
            lines = ['init A T3 %d' % flags, 'cb_quiet 1', 'parse_buf A ' + enc(setup), 'snapshot A/m', 'dump A 7', 'note refused call', call, 'snapshot A/m', 'dump A 7']
            c = Case(lines)
            r = drv.run([c])[0]
            st.evaluations += 1
            st.transitions += 1
            st.validated += 1
            script = 'schema T3 %s\n%s' % (T3.spec(), c.script())
            if r.status in ('crash', 'hang'):
                st.violation('%s:%s' % (r.status, engine.sanitizer_summary(r.info)), script, 'failure return', engine.excerpt(r.info))
                continue
            snaps, dumps = r.all('snap '), r.all('dump ')
            rl = [l for l in r.lines if l.startswith('r rmsec ') or l.startswith('r setint ') or l.startswith('r rmnsec ')]
            st.outcome((rl[-1] if rl else '') + snaps[0])
            st.nontriv('%d|%s' % (flags, call))
            if not rl or not rl[-1].endswith(' -1'):
                st.violation('not-refused:missing-instance', script, 'failure return', rl[-1] if rl else 'none')
            elif snaps[0] != snaps[1] or dumps[0] != dumps[1]:
                st.violation('option-changed:missing-instance', script, dumps[0], dumps[1])
            # the control: in a case-sensitive context the other letter case is another title - the call succeeds
    st.samples.append({'targets': [t[0].decode() for t in targets], 'contexts': ['case-sensitive', 'CFGF_NOCASE'], 'setup': setup.decode()})
    return st.result([drv])


def main():
    ck = engine.Check(PID)
    if ck.replay:
        engine.replay_file(ck.replay)
        return
    engine.build(['asan'])
    quick = ck.tier == 'quick'
    depth = 4 if quick else 5
    shards = []
    total_refusals = 0
    for name in ('i', 'il', 'n', 'f', 'fl', 'b', 'bl', 's', 'sl', 'mt', 'p', 'pl', 'ic', 'scl', 'si', 'ss'):
        B = builders(name)
        total_refusals += len(refusals(name))
        hists = [()]
        for d in range(1, depth + 1):
            hists += list(itertools.product(B, repeat=d))
        for ch in engine.chunks(hists, 6):
            shards.append((name, ch, ck.deadline))
    ck.cov['refusing_calls'] = total_refusals
    engine.phase(ck, 'option states built by <= %d operations x refusing calls' % depth, shard, shards, options=16)
    engine.phase(ck, 'adding an existing title at every nesting depth x {case-sensitive, case-insensitive with the title in the other letter case}', shard_titles, [ck.deadline])
    ck.assumptions = ['option states are those reachable by <= %d builder operations (API calls and parses) per option' % depth,
                      'a rejected *parse* is not a refused update in the sense of this property and is not checked here']
    ck.finish('option state (history of builder ops) x refusing call (bulk set with the bad element at every position, veto, wrong type, '
              'illegal index, duplicate / missing section, unconvertible text); non-trivial = distinct (option, snapshot) states')


if __name__ == '__main__':
    main()
