#!/usr/bin/env python3
"""C01 - parsed configuration equals the reference meaning of the text.

E1 viable-prefix DFS, E2 full product, E3 histories of texts; oracle = RefParser
(return code and full canonical dump).  See DESIGN.md section 5 / C01.
"""
import sys, os, time, itertools
sys.path.insert(0, os.path.dirname(os.path.abspath(__file__)))
import engine
from engine import Case, enc, ShardStats, get_driver
from model import ACCEPT, REJECT, INCOMPLETE, UNSPEC, CFGF, dump_sec, new_store, RefParser, tokens_from_words
import schemas as S
import trace

PID = 'C01'
SCHEMAS = {s.sid: s for s in S.family_F() + S.family_one_option()}
CTXFLAGS = [0, CFGF['NOCASE'], CFGF['COMMENTS']]
IGN = CFGF['IGNORE_UNKNOWN']
BATCH = 400


def expected_lines(node):
    if node.verdict == ACCEPT:
        # what the text denotes includes the function calls it makes: each with exactly its own arguments, in order
        calls = ['cb f %s %d%s' % (enc(ev[1]), len(ev[2]), ''.join(' ' + enc(a) for a in ev[2])) for ev in node.res.events if ev[0] == 'f']
        return ['r parse_buf 0', 'dump ' + dump_sec(node.store, 0)] + calls
    if node.verdict in (REJECT, INCOMPLETE):
        return ['r parse_buf 1']
    return None


def make_case(sid, ctxflags, texts):
    lines = ['env %s %s' % (enc(b'E'), enc(b'')), 'env %s %s' % (enc(b'V'), enc(b'val')), 'init A %s %d' % (sid, ctxflags)]
    for t in texts:
        lines.append('parse_buf A ' + enc(t))
    lines.append('dump A 32')
    return Case(lines)


def full_script(sid, case):
    return 'schema %s %s\n%s' % (sid, SCHEMAS[sid].spec(), case.script())


def judge(st, sid, case, res, exp, label):
    """compare one result with the model's expectation"""
    st.evaluations += 1
    if res.status in ('crash', 'hang'):
        st.violation('%s:%s' % (res.status, engine.sanitizer_summary(res.info)), full_script(sid, case),
                     'a return code', engine.excerpt(res.info))
        return
    rcs = res.all('r parse_buf')
    dump = res.first('dump ')
    obs = (rcs[-1] if rcs else 'none') + ' ' + (dump or '')
    st.outcome(obs)
    if exp is None:
        st.unspec += 1
        return
    st.validated += 1
    if not rcs or rcs[-1] != exp[0]:
        st.violation('rc-mismatch:%s' % label, full_script(sid, case), exp[0], rcs[-1] if rcs else 'none')
        return
    if len(exp) > 1 and dump != exp[1]:
        st.violation('dump-mismatch:%s' % label, full_script(sid, case), exp[1], dump)
    elif len(exp) > 1 and label == ACCEPT:
        calls = [l for l in res.lines if l.startswith('cb f ')]
        if calls != exp[2:]:
            st.violation('function-calls-mismatch:%s' % label, full_script(sid, case), '\n'.join(exp[2:]) or '(no call)', '\n'.join(calls) or '(no call)')


def run_nodes(st, drv, sid, ctxflags, nodes, init_dump):
    cases, exps = [], []
    for node in nodes:
        c = make_case(sid, ctxflags, [trace.text_of(node.words)])
        cases.append(c)
        exps.append(expected_lines(node))
        st.transitions += 1
        if node.verdict == ACCEPT:
            d = exps[-1][1]
            st.states += 0
            if d != init_dump:
                st.nontriv(d)
        elif node.verdict in (REJECT, INCOMPLETE) and node.res.items:
            st.nontriv(' '.join(node.words))
    results = drv.run(cases)
    for c, r, e, node in zip(cases, results, exps, nodes):
        judge(st, sid, c, r, e, node.verdict)
        if len(st.samples) < 2 and node.verdict == ACCEPT and len(node.words) >= 3:
            st.samples.append({'schema': sid, 'ctxflags': ctxflags, 'text': trace.text_of(node.words), 'expected': e})


def reduced_alphabet(sch, nocase=False):
    """declared names (and, for case-insensitive contexts, their upper-case spellings), one value, one title in two letter
    cases, the punctuation that sections and assignments need"""
    names = [n.decode('latin-1') for n in sch.all_names()]
    if nocase:
        names += [n.upper() for n in names if n.upper() != n]
    return names + ['7', 't1', 'T1', '=', '+=', '{', '}']


# function calls need many tokens each: a reduced alphabet for schema F13 (several calls in one body)
CALL_WORDS = ['fn', '(', ')', ',', '7', 'x', 'i', '=']


# unquoted substitution words: a variable set to the empty string (its default is NOT used), an unset one (default used), a set one
SUBST_WORDS = ['${E:-7}', '${U:-x}', '${V}', '${E}']


def shard_e1(shard):
    kind, sid, ctxflags, N, prefixes, deadline = shard
    sch = SCHEMAS[sid]
    drv = get_driver('asan')
    drv.define_schema(sid, sch.spec())
    st = ShardStats('E1 N=%d' % N)
    alpha = reduced_alphabet(sch, bool(ctxflags & CFGF['NOCASE'])) if kind.endswith('r') else S.alphabet_for(sch)
    if kind in ('nodes', 'dfss'):
        alpha = alpha + SUBST_WORDS
    if kind in ('nodef', 'dfsf'):
        alpha = CALL_WORDS
    init_dump = 'dump ' + dump_sec(new_store(sch, ctxflags), 0)
    buf = []
    for prefix in prefixes:
        if kind.startswith('node'):
            gen = [trace.evaluate(sch, ctxflags, list(prefix))]
        else:
            gen = trace.e1(sch, ctxflags, alpha, N, prefix)
        for node in gen:
            buf.append(node)
            if len(buf) >= BATCH:
                run_nodes(st, drv, sid, ctxflags, buf, init_dump)
                buf = []
                if time.time() > deadline:
                    st.complete = False
                    break
        if not st.complete:
            break
    if buf:
        run_nodes(st, drv, sid, ctxflags, buf, init_dump)
    return st.result([drv])


def shard_e2(shard):
    sid, ctxflags, L, prefix, deadline = shard
    sch = SCHEMAS[sid]
    drv = get_driver('asan')
    drv.define_schema(sid, sch.spec())
    st = ShardStats('E2 L=%d' % L)
    alpha = S.alphabet_for(sch)
    init_dump = 'dump ' + dump_sec(new_store(sch, ctxflags), 0)
    buf = []
    for n in range(len(prefix), L + 1):
        for tail in itertools.product(alpha, repeat=n - len(prefix)):
            buf.append(trace.evaluate(sch, ctxflags, list(prefix) + list(tail)))
            if len(buf) >= BATCH:
                run_nodes(st, drv, sid, ctxflags, buf, init_dump)
                buf = []
        if time.time() > deadline:
            st.complete = False
            break
    if buf:
        run_nodes(st, drv, sid, ctxflags, buf, init_dump)
    return st.result([drv])


def accepted_texts(sch, ctxflags, alpha, N, limit):
    out = []
    for node in trace.e1(sch, ctxflags, alpha, N):
        if node.verdict == ACCEPT and node.words and node.res.items:
            out.append(list(node.words))
            if len(out) >= limit:
                break
    return out


# texts refused at the first token: unknown name, stray brace, bad escape, octal escape above 0xFF, input ending inside
# a string or a comment
ABORTED_AT_FIRST_TOKEN = [['zz', '=', '7'], ['}'], ['"\\9"'], ['"a\\477"'], ['"abc'], ["'abc"], ['/*', 'x']]


def shard_e3(shard):
    sid, ctxflags, nhist, first, pool, rejects, deadline = shard
    sch = SCHEMAS[sid]
    drv = get_driver('asan')
    drv.define_schema(sid, sch.spec())
    st = ShardStats('E3 histories of %d texts' % nhist)
    cases, exps, metas = [], [], []

    def flush():
        results = drv.run(cases)
        for c, r, e, m in zip(cases, results, exps, metas):
            judge(st, sid, c, r, e, 'history')
            if len(st.samples) < 1:
                st.samples.append({'schema': sid, 'history': m, 'expected': e})
        del cases[:], exps[:], metas[:]

    def sequences():
        for rest in itertools.product(range(len(pool) + len(rejects)), repeat=nhist - 1):
            # a rejected text only in last position
            if any(k >= len(pool) for k in rest[:-1]):
                continue
            yield [pool[first]] + [pool[k] if k < len(pool) else rejects[k - len(pool)] for k in rest]
        # a text refused at its very first token (nothing denoted yet: the context is what it was) in front of and
        # between accepted texts - the scanner and the parser start the next text from scratch
        for ab in ABORTED_AT_FIRST_TOKEN:
            if ab[0] in ('zz', '}'):
                r0 = RefParser(ctxflags).parse(new_store(sch, ctxflags), tokens_from_words(ab))
                if r0.verdict != REJECT or r0.items:
                    continue
            yield [ab, pool[first]]
            for k in range(min(len(pool), 12)):
                yield [pool[first], ab, pool[k]]
                if nhist > 2:
                    yield [ab, pool[first], ab, pool[k]]

    for seq in sequences():
        store = new_store(sch, ctxflags)
        verdict = ACCEPT
        for words in seq:
            if any(words is ab for ab in ABORTED_AT_FIRST_TOKEN):
                continue
            p = RefParser(ctxflags)
            res = p.parse(store, tokens_from_words(words))
            verdict = res.verdict
            if verdict != ACCEPT:
                break
        texts = [trace.text_of(w) for w in seq]
        c = make_case(sid, ctxflags, texts)
        if verdict == ACCEPT:
            e = ['r parse_buf 0', 'dump ' + dump_sec(store, 0)]
            st.nontriv(e[1])
        elif verdict in (REJECT, INCOMPLETE):
            e = ['r parse_buf 1']
        else:
            e = None
        st.transitions += len(seq)
        cases.append(c)
        exps.append(e)
        metas.append(texts)
        if len(cases) >= BATCH:
            flush()
            if time.time() > deadline:
                st.complete = False
                break
    if cases:
        flush()
    return st.result([drv])


def chunks(lst, n):
    for i in range(0, len(lst), n):
        yield lst[i:i + n]


def main():
    ck = engine.Check(PID)
    if ck.replay:
        engine.replay_file(ck.replay)
        return
    engine.build(['asan'])
    quick = ck.tier == 'quick'
    core = ['F01', 'F03', 'F05', 'F06', 'F07', 'F12', 'F23']
    fam_F = [s.sid for s in S.family_F()]
    fam_O = [s.sid for s in S.family_one_option()]
    # (schema ids, ctx flag list, N) - smallest bound first
    plan = []
    if quick:
        plan.append(('E1', fam_F + fam_O, CTXFLAGS, 4))
        plan.append(('E1', fam_F + [x.sid for x in S.family_one_option() if any(o.has('K') for o in x.opts)], [IGN], 4))       # "for all context flags": undeclared items skipped
        plan.append(('E1', ['F05', 'F07'], [IGN, IGN | CFGF['COMMENTS']], 5))
        plan.append(('E1', ['F09'], [IGN], 6))      # undeclared names inside a free-form section: skipped, not collected
        plan.append(('E1s', core, [0], 4))          # values that come from the environment
        plan.append(('E1', core, [CFGF['KEYSTRVAL'], CFGF['KEYSTRVAL'] | CFGF['NOCASE']], 4))      # a context that is free-form itself: undeclared names at the top level are keys
        plan.append(('E1', fam_F, [0], 5))
        plan.append(('E1', core, [0], 6))
    else:
        plan.append(('E1s', core, [0], 5))
        plan.append(('E1', core, [CFGF['KEYSTRVAL'], CFGF['KEYSTRVAL'] | CFGF['NOCASE']], 6))
        plan.append(('E1', fam_F + fam_O, [IGN], 5))
        plan.append(('E1', ['F05', 'F07', 'F09'], [IGN, IGN | CFGF['COMMENTS']], 7))
        plan.append(('E1', fam_F + fam_O, CTXFLAGS, 5))
        plan.append(('E1', fam_F + fam_O, CTXFLAGS, 6))
        plan.append(('E1', fam_F, CTXFLAGS, 7))
        plan.append(('E1', core, [0], 8))
        plan.append(('E1', core, [0], 9))
    for (kind, sids, flagsets, N) in plan:
        if ck.expired():
            ck.cov['exhaustive'] = False
            ck.cov['bounds'].append({'enumeration': 'E1', 'N': N, 'schemas': len(sids), 'completed': False, 'reason': 'deadline before start'})
            continue
        shards = []
        for sid in sids:
            sch = SCHEMAS[sid]
            alpha = S.alphabet_for(sch) + (SUBST_WORDS if kind == 'E1s' else [])
            sfx = 's' if kind == 'E1s' else ''
            for cf in flagsets:
                depth = 2 if N <= 6 else 3
                inner, frontier = trace.viable_prefixes(sch, cf, alpha, min(depth, N))
                shards.append(('node' + sfx, sid, cf, N, inner, ck.deadline))
                per = 8 if N <= 5 else 2
                for ch in chunks(frontier, per):
                    shards.append(('dfs' + sfx, sid, cf, N, ch, ck.deadline))
        agg = {'n': 0, 'complete': True}

        def on(r, agg=agg):
            ck.merge(r)
            agg['n'] += r['evaluations']
            agg['complete'] = agg['complete'] and r['complete']
        t = time.time()
        engine.run_shards(shard_e1, shards, on_result=on)
        ck.cov['bounds'].append({'enumeration': 'E1' if kind == 'E1' else 'E1 with unquoted substitution words (set-but-empty, unset with default, set)', 'N': N, 'schemas': len(sids), 'ctxflags': flagsets,
                                 'cases': agg['n'], 'completed': agg['complete'], 'wall_s': round(time.time() - t, 1)})
        if not agg['complete']:
            ck.cov['exhaustive'] = False
    # E3: histories (two texts early - cheap -, three texts last)
    def run_e3(nh):
        if ck.expired():
            ck.cov['exhaustive'] = False
            ck.cov['bounds'].append({'enumeration': 'E3', 'texts': nh, 'completed': False, 'reason': 'deadline before start'})
            return
        shards = []
        for sid in ['F03', 'F05', 'F06', 'F07', 'F12', 'F16']:
            sch = SCHEMAS[sid]
            alpha = S.alphabet_for(sch)
            pool = accepted_texts(sch, 0, alpha, 6, 40 if nh == 2 else 24)
            rejects = [['zz', '=', '7'], [alpha[0], '=', '{'], ['}']]
            for first in range(len(pool)):
                shards.append((sid, 0, nh, first, pool, rejects, ck.deadline))
        agg = {'n': 0, 'complete': True}

        def on3(r, agg=agg):
            ck.merge(r)
            agg['n'] += r['evaluations']
            agg['complete'] = agg['complete'] and r['complete']
        t = time.time()
        engine.run_shards(shard_e3, shards, on_result=on3)
        ck.cov['bounds'].append({'enumeration': 'E3', 'texts': nh, 'schemas': 6, 'cases': agg['n'], 'completed': agg['complete'],
                                 'wall_s': round(time.time() - t, 1)})
        if not agg['complete']:
            ck.cov['exhaustive'] = False

    run_e3(2)
    # several function calls in one text
    Nf = 8 if quick else 10
    inner, frontier = trace.viable_prefixes(SCHEMAS['F13'], 0, CALL_WORDS, 3)
    shards = [('nodef', 'F13', 0, Nf, inner, ck.deadline)] + [('dfsf', 'F13', 0, Nf, ch, ck.deadline) for ch in chunks(frontier, 2)]
    engine.phase(ck, 'E1 N=%d over the function-call alphabet (several calls in one text, each with its own arguments)' % Nf, shard_e1, shards, alphabet=len(CALL_WORDS))
    # E1 with a reduced alphabet, deeper: repeated titles, re-opened sections, a section named like the top-level context
    deep = ['F05', 'F06', 'F07', 'F08', 'F16', 'F18', 'F19', 'F20', 'F21', 'F22', 'F23']
    for N in ([8, 10] if quick else [10, 11, 12]):
        shards = []
        for sid in deep:
            sch = SCHEMAS[sid]
            alpha = reduced_alphabet(sch)
            for cf in (0, CFGF['NOCASE']):
                alpha = reduced_alphabet(sch, bool(cf))
                inner, frontier = trace.viable_prefixes(sch, cf, alpha, 3)
                shards.append(('noder', sid, cf, N, inner, ck.deadline))
                for ch in chunks(frontier, 2):
                    shards.append(('dfsr', sid, cf, N, ch, ck.deadline))
        engine.phase(ck, 'E1 reduced alphabet N=%d' % N, shard_e1, shards, schemas=len(deep))
    # E2: full product, no pruning
    L = 4 if quick else 5
    for LL in ([3, L] if quick else [4, L]):
        if ck.expired():
            ck.cov['exhaustive'] = False
            ck.cov['bounds'].append({'enumeration': 'E2', 'L': LL, 'completed': False, 'reason': 'deadline before start'})
            continue
        shards = []
        for sid in ['F01', 'F03', 'F07']:
            alpha = S.alphabet_for(SCHEMAS[sid])
            if LL <= 3:
                for w in alpha:
                    shards.append((sid, 0, LL, (w,), ck.deadline))
            else:
                for w in alpha:
                    for w2 in alpha:
                        shards.append((sid, 0, LL, (w, w2), ck.deadline))
            shards.append((sid, 0, 1 if LL > 3 else 0, (), ck.deadline))
        agg = {'n': 0, 'complete': True}

        def on2(r, agg=agg):
            ck.merge(r)
            agg['n'] += r['evaluations']
            agg['complete'] = agg['complete'] and r['complete']
        t = time.time()
        engine.run_shards(shard_e2, shards, on_result=on2)
        ck.cov['bounds'].append({'enumeration': 'E2', 'L': LL, 'schemas': 3, 'cases': agg['n'], 'completed': agg['complete'],
                                 'wall_s': round(time.time() - t, 1)})
        if not agg['complete']:
            ck.cov['exhaustive'] = False
    nhist = 2 if quick else 3
    for nh in range(3, nhist + 1):
        run_e3(nh)
    ck.assumptions = ['tokens are joined by single blanks (layout variation is covered by C03/C06/C15)',
                      'behaviour the statements leave open (UNSPEC list in DESIGN.md section 4) is executed but not compared',
                      'inputs longer than the stated bounds are not covered']
    ck.finish('E1: every token sequence (alphabet = declared names, an undeclared name, a case variant, value lexemes, '
              'punctuation) whose proper prefixes the reference parser has not rejected, each executed as a complete text; '
              'E2: full product without pruning; E3: sequences of texts parsed into one context. non-trivial = accepted text '
              'whose dump differs from the initial dump, or text rejected after at least one completed item (distinct texts/dumps)')


if __name__ == '__main__':
    main()
