"""schemas.py - the schema family F shared by the trace enumerations (C01, C02, C06, C07, C12, C15)
and the systematic one-option family."""
from model import Opt, Schema, CFGF


def family_F():
    F = []
    F.append(Schema('F01', [Opt('int', 'i', '', 5), Opt('str', 's', '', b'hello'), Opt('bool', 'b', '', False),
                            Opt('float', 'f', '', 1.5)], 'scalars with defaults'))
    F.append(Schema('F02', [Opt('int', 'i', 'N'), Opt('str', 's', 'N'), Opt('bool', 'b', 'N'), Opt('float', 'f', 'N')],
                    'scalars without defaults'))
    F.append(Schema('F03', [Opt('int', 'l', 'L', [b'1', b'2']), Opt('str', 'sl', 'L', [b'a']),
                            Opt('bool', 'bl', 'L', [b'true']), Opt('float', 'fl', 'L', [b'1.5'])], 'lists with defaults'))
    F.append(Schema('F04', [Opt('int', 'l', 'L'), Opt('str', 'sl', 'LN'), Opt('int', 'e', 'L', []), Opt('int', 'i', '', 0)],
                    'lists without defaults'))
    F.append(Schema('F05', [Opt('sec', 'sec', '', sub=[Opt('int', 'x', '', 1), Opt('int', 'xl', 'L', [b'1'])]),
                            Opt('int', 'i', '', 5)], 'single section, merged on re-open'))
    F.append(Schema('F06', [Opt('sec', 'm', 'M', sub=[Opt('int', 'x', '', 1), Opt('str', 's', 'N')]), Opt('int', 'i', '', 5)],
                    'multi section'))
    F.append(Schema('F07', [Opt('sec', 'mt', 'MT', sub=[Opt('int', 'x', '', 1), Opt('int', 'xl', 'L')]), Opt('int', 'i', '', 5)],
                    'titled multi section'))
    F.append(Schema('F08', [Opt('sec', 'mu', 'MTU', sub=[Opt('int', 'x', '', 1)]), Opt('int', 'i', '', 5)],
                    'titled multi section, unique titles'))
    F.append(Schema('F09', [Opt('sec', 'kv', 'K', sub=[]), Opt('int', 'i', '', 5)], 'free-form section'))
    F.append(Schema('F10', [Opt('sec', 'kvm', 'KMT', sub=[Opt('str', 'k', '', b'd')]), Opt('int', 'i', '', 5)],
                    'free-form titled multi section with a declared key'))
    F.append(Schema('F11', [Opt('sec', 'a', '', sub=[
        Opt('sec', 'b', 'M', sub=[Opt('sec', 'c', 'MT', sub=[Opt('int', 'x', '', 1)]), Opt('int', 'y', '', 2)]),
        Opt('int', 'z', '', 3)])], 'nesting depth 3'))
    F.append(Schema('F12', [Opt('int', 'd', 'D', 5), Opt('int', 'dd', 'DX', 5), Opt('int', 'dl', 'LD', [b'1']),
                            Opt('int', 'ddl', 'LDX', [b'1']), Opt('int', 'i', '', 5)], 'deprecated / drop'))
    F.append(Schema('F13', [Opt('func', 'fn', '', None, 'u'), Opt('int', 'i', '', 5), Opt('str', 's', '', b'q')],
                    'function'))
    F.append(Schema('F14', [Opt('int', 'si', 'S'), Opt('str', 'ss', 'S'), Opt('bool', 'sb', 'S'), Opt('float', 'sf', 'S'),
                            Opt('int', 'i', '', 5)], 'simple options'))
    F.append(Schema('F15', [Opt('str', 's', ''), Opt('str', 'sl', 'L', [b'a', b'b']), Opt('int', 'i', '', 0)],
                    'NULL string default, string list default'))
    F.append(Schema('F16', [Opt('sec', 'm', 'M', sub=[Opt('sec', 's', '', sub=[Opt('int', 'x', '', 1)]),
                                                     Opt('int', 'l', 'L', [b'1', b'2'])])],
                    "'+=' on defaults and a single section inside a multi section"))
    F.append(Schema('F17', [Opt('ptr', 'p', '', None, 'pf'), Opt('ptr', 'pl', 'L', None, 'pf'), Opt('ptr', 'pd', '', b'dflt', 'pf'), Opt('int', 'i', '', 5)],
                    'pointer options'))
    F.append(Schema('F18', [Opt('sec', 'mt', 'MT', sub=[Opt('sec', 'in', 'M', sub=[Opt('int', 'x', '', 1)])]),
                            Opt('int', 'l', 'L', [b'1'])], 'multi inside titled multi'))
    F.append(Schema('F19', [Opt('sec', 'root', 'MT', sub=[Opt('int', 'x', '', 1)]), Opt('int', 'i', '', 5)],
                    "a titled multi section that happens to be named 'root' (the name of the top-level context)"))
    F.append(Schema('F20', [Opt('sec', 'a', '', sub=[Opt('sec', 'mu', 'MTU', sub=[Opt('int', 'x', '', 1)]), Opt('int', 'y', '', 2)]),
                            Opt('sec', 'mu', 'MT', sub=[Opt('int', 'x', '', 1)])],
                    'unique titles at depth 2 next to a same-named section at depth 1 that allows duplicates'))
    F.append(Schema('F21', [Opt('sec', 'm', 'M', sub=[Opt('int', 'd', 'D', 5), Opt('int', 'dl', 'LDX', [b'1']), Opt('int', 'l', 'L', [b'1', b'2'])]),
                            Opt('int', 'dd', 'DX', 5)], 'deprecated / drop options and list defaults inside a multi section'))
    F.append(Schema('F24', [Opt('sec', 'kv', 'K', sub=[Opt('int', 'a', '', 1), Opt('str', 'b', '', b'x')]),
                            Opt('sec', 'kw', 'KM', sub=[Opt('int', 'a', '', 1), Opt('str', 'b', '', b'x'), Opt('int', 'c', 'L', [b'1']), Opt('bool', 'd', '', True)]),
                            Opt('int', 'i', '', 5)],
                    'free-form sections that also declare 2 and 4 options of their own (the option array grows from a size that is no power of two)'))
    F.append(Schema('F23', [Opt('sec', 'ds', 'DX', sub=[Opt('int', 'x', '', 1)]), Opt('sec', 'dm', 'MDX', sub=[Opt('int', 'x', '', 1)]),
                            Opt('sec', 'dd', 'D', sub=[Opt('int', 'x', '', 1)]), Opt('int', 'i', '', 5)],
                    'deprecated sections: single and multi ones that are dropped after they were read, one that is only reported'))
    F.append(Schema('F22', [Opt('sec', 'ns', 'N', sub=[Opt('int', 'x', '', 1), Opt('int', 'l', 'L', [b'1', b'2'])]), Opt('int', 'i', '', 5)],
                    'a single section declared NODEFAULT: absent until mentioned, then merged like any single section'))
    return F


def family_one_option():
    """kind x list x default x {plain, deprecated, drop}; section form x child kind"""
    out = []
    n = 0
    defaults = {'int': (7, [b'7', b'7']), 'float': (1.5, [b'1.5']), 'bool': (True, [b'true']), 'str': (b'x', [b'x', b'7'])}
    for kind in ('int', 'float', 'bool', 'str'):
        for lst in (False, True):
            for dmode in ('given', 'none', 'nodefault'):
                for dep in ('', 'D', 'DX'):
                    fl = ('L' if lst else '') + dep + ('N' if dmode == 'nodefault' else '')
                    if dmode == 'given':
                        d = defaults[kind][1] if lst else defaults[kind][0]
                    else:
                        d = None
                    n += 1
                    out.append(Schema('O%02d' % n, [Opt(kind, 'o', fl, d), Opt('int', 'z', '', 3)],
                                      'one option: %s %s default=%s %s' % (kind, 'list' if lst else 'scalar', dmode, dep or 'plain')))
    for form in ('', 'M', 'MT', 'MTU', 'K', 'N', 'MN'):
        for child in (Opt('int', 'x', '', 1), Opt('str', 'xl', 'L', [b'a'])):
            n += 1
            out.append(Schema('O%02d' % n, [Opt('sec', 'o', form, sub=[child]), Opt('int', 'z', '', 3)],
                              'one section: flags=%s child=%s' % (form or '-', child.name.decode())))
    return out


def _all_opts(opts):
    for o in opts:
        yield o
        yield from _all_opts(o.sub)


def alphabet_for(schema, extra_names=True):
    """token alphabet of C01-E1 for a schema: declared names, an undeclared one, a case variant,
    value lexemes, two titles, punctuation"""
    names = [n.decode('latin-1') for n in schema.all_names()]
    words = list(names)
    if extra_names:
        words.append('zz')
        # a case variant of the first name that has letters
        for n in names:
            if n.upper() != n:
                words.append(n.upper())
                break
    for v in ('7', 'x', 'true', '1.5', 't1'):
        if v not in words:
            words.append(v)
    if extra_names and any(o.has('T') for o in _all_opts(schema.opts)):
        words.append('T1')      # the same title in another letter case (matters under CFGF_NOCASE)
    words += ['=', '+=', '{', '}', '(', ')', ',']
    return words
