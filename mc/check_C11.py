#!/usr/bin/env python3
"""C11 - path lookups resolve like step-by-step navigation.

For several trees: every option / section x every qualifier form per step, each path with <= d
injected defects, plus all short strings over the path alphabet; through cfg_getopt, cfg_getsec, a
typed getter, a by-path setter and cfg_rmsec.  Oracle: refpath gives the stepwise address (the driver
finds the address of the returned pointer by walking the tree with single-level accessors); setters
and removers change exactly that target; unresolvable paths fail and change nothing."""
import sys, os, time, itertools, copy
sys.path.insert(0, os.path.dirname(os.path.abspath(__file__)))
import engine
from engine import Case, enc, ShardStats, get_driver
from model import Opt, Schema, dump_sec, CFGF, ACCEPT
import reftext
import refpath
from refpath import NOTFOUND, UNSPEC, quote_title

PID = 'C11'
TREES = {}


def tree(tid, opts, text, flags=0):
    TREES[tid] = (Schema(tid, opts), text, flags)


tree('T1', [Opt('sec', 's', '', sub=[Opt('int', 'x', '', 1), Opt('sec', 't', '', sub=[Opt('int', 'y', '', 2), Opt('int', 'l', 'L', [b'4', b'5'])])]),
            Opt('int', 'i', '', 5)], b's { x = 3 t { y = 4 } }')
tree('T2', [Opt('sec', 'm', 'M', sub=[Opt('int', 'x', '', 1), Opt('sec', 'n', 'M', sub=[Opt('int', 'y', '', 2)])]), Opt('int', 'a', '', 5),
            Opt('sec', 'e', 'M', sub=[Opt('int', 'x', '', 1)])],
     b'm { x = 10 n { y = 100 } n { y = 101 } } m { x = 11 } m { x = 12 n { y = 120 } }')
tree('T3', [Opt('sec', 'mt', 'MT', sub=[Opt('int', 'x', '', 1), Opt('int', 'l', 'L', [b'1'])]), Opt('int', 'i', '', 5)],
     b'mt a { x = 1 } mt "b c" { x = 2 } mt "it\'s" { x = 3 } mt "x|y" { x = 4 } mt "q\\\\z" { x = 5 } mt 7 { x = 6 } mt "=" { x = 7 } mt "\'q" { x = 8 } mt "" { x = 9 }')
tree('T4', [Opt('sec', 's', '', sub=[Opt('sec', 'mt', 'MT', sub=[Opt('sec', 'm', 'M', sub=[Opt('int', 'z', '', 1)]), Opt('int', 'x', '', 2)])])],
     b's { mt a { m { z = 1 } m { z = 2 } x = 9 } mt b { x = 8 } }')
tree('T5', [Opt('sec', 'Sec', '', sub=[Opt('int', 'Xa', '', 1)]), Opt('sec', 'mm', 'M', sub=[Opt('int', 'x', '', 1)]), Opt('int', 'i', '', 5),
            Opt('sec', 'Mt', 'MT', sub=[Opt('int', 'x', '', 1)])],
     b'sec { xa = 3 } MM { X = 4 } mt Abc { x = 5 } MT "q R" { X = 6 }', CFGF['NOCASE'])
tree('T8', [Opt('sec', 'Mt', 'MT', sub=[Opt('int', 'x', '', 1)]), Opt('int', 'i', '', 5)],      # the same titles in a case-SENSITIVE context
     b'Mt Abc { x = 5 } Mt abc { x = 6 }')
tree('T6', [Opt('sec', 'm', 'M', sub=[Opt('int', '0', '', 1), Opt('int', 'x', '', 2)]), Opt('int', '1', '', 5), Opt('str', 'str', '', b'v'),
            Opt('sec', 'mt', 'MT', sub=[Opt('int', 'x', '', 1)])], b'm { 0 = 3 } mt 0 { x = 5 } mt 1 { x = 6 }')

# single sections that carry a title (TITLE without MULTI, created by the text): still single - a qualifier never resolves
tree('T7', [Opt('sec', 'box', 'TN', sub=[Opt('int', 'x', '', 1)]), Opt('sec', 'out', 'M', sub=[Opt('sec', 'box', 'TN', sub=[Opt('int', 'x', '', 1)]), Opt('int', 'y', '', 2)]),
            Opt('int', 'i', '', 5)], b'box a { x = 3 } out { box a { x = 4 } } out { y = 6 }')

# long names and titles: a step is as long as it is (names and titles of 31 / 32 / 33 / 64 / 65 / 300 bytes, each a prefix of the next)
_L = lambda n: (b'section-name-' * 30)[:n]
tree('T9', [Opt('sec', _L(n), 'M' if n % 2 else '', sub=[Opt('int', 'x', '', n), Opt('int', _L(n), '', 1)]) for n in (31, 32, 33, 64, 65, 300)] +
           [Opt('sec', 'mt', 'MT', sub=[Opt('int', 'x', '', 1)])],
     b' '.join(b'%s { x = %d }' % (_L(n), n + 1000) for n in (31, 32, 33, 64, 65, 300)) + b' ' + b' '.join(b'mt %s { x = %d }' % (_L(n), n) for n in (300, 65, 64, 33, 32, 31)))


def model_tree(tid):
    sch, text, flags = TREES[tid]
    m = reftext.meaning(sch, flags, text)
    assert m.verdict == ACCEPT, (tid, m.why)
    return m.store


def step_forms(o, idx, inst):
    n = o.decl.name
    forms = [n]
    if o.decl.has('M'):
        if o.decl.has('T'):
            forms.append(n + b'=' + inst.title)
            forms.append(n + b'=' + quote_title(inst.title))
        else:
            forms.append(n + b'=%d' % idx)
    return forms


def all_paths(store):
    """-> list of path strings for every option and every section instance, all qualifier forms"""
    out = []

    def walk(sec, prefixes):
        for o in sec.opts:
            for p in prefixes:
                out.append(p + o.decl.name)
            if o.decl.kind == 'sec':
                for idx, inst in enumerate(o.values):
                    forms = step_forms(o, idx, inst)
                    for p in prefixes:
                        for f in forms:
                            out.append(p + f)
                    walk(inst, [p + f + b'|' for p in prefixes for f in forms])
    walk(store, [b''])
    # letter-case variants of every path: the same thing in a case-insensitive context, something else (or nothing) otherwise
    out += [p.lower() for p in out] + [p.upper() for p in out]
    seen, uniq = set(), []
    for p in out:
        if p not in seen:
            seen.add(p)
            uniq.append(p)
    return uniq


def defects(path):
    """systematically broken variants of one path"""
    out = set()
    seps = [k for k, c in enumerate(path) if c == 0x7C]
    for k in seps:
        out.add(path[:k] + path[k + 1:])            # dropped separator
        out.add(path[:k] + b'|' + path[k:])         # duplicated separator
        out.add(path[:k + 1] + b'=' + path[k + 1:])  # stray '=' after a separator
    out.add(b'|' + path)
    out.add(path + b'|')
    out.add(b'||' + path)
    out.add(path + b'=')
    out.add(path + b'=0')
    out.add(b'=' + path)
    out.add(path + b'|zz')
    out.add(b'zz|' + path)
    eqs = [k for k, c in enumerate(path) if c == 0x3D]
    for k in eqs:
        e = path.find(b'|', k)
        e = len(path) if e < 0 else e
        q = path[k + 1:e]
        for repl in (b'-1', b'99', b'1x', b'4294967296', b'-4294967296', b'-4294967295', b'-9223372036854775808', b'-99999999999999999999',
                     b'18446744073709551616', b'zz', b'', b"'zz'", b"'" + q, q + b"'", b"'a\\qb'", b"''", b"'\\''", b"'\\\\'"):
            out.add(path[:k + 1] + repl + path[e:])
        out.add(path[:k] + path[e:])                # qualifier removed
        # the title itself, quoted, with a backslash in front of one of its ordinary characters: a bad escape, not that title
        t = q
        if t[:1] == b"'" and t[-1:] == b"'" and len(t) >= 2:
            t = t[1:-1].replace(b"\\'", b"'").replace(b'\\\\', b'\\')
        if t and not t.isdigit():
            for j in range(len(t)):
                if t[j:j + 1] not in (b"'", b'\\'):
                    esc = lambda x: x.replace(b'\\', b'\\\\').replace(b"'", b"\\'")
                    out.add(path[:k + 1] + b"'" + esc(t[:j]) + b'\\' + esc(t[j:]) + b"'" + path[e:])
    # a qualifier on every unqualified step
    parts = path.split(b'|')
    for k, part in enumerate(parts):
        if b'=' not in part:
            for q in (b'=0', b'=1', b"='a'", b'=a'):
                out.add(b'|'.join(parts[:k] + [part + q] + parts[k + 1:]))
    out.discard(path)
    return sorted(out)


def expectations(store, path):
    """model answers for the read-only calls"""
    ro = refpath.resolve(store, path, 'opt')
    rs = refpath.resolve(store, path, 'sec')
    return ro, rs


def read_case(tid, path):
    sch, text, flags = TREES[tid]
    return Case(['init A %s %d noerr' % (tid, flags), 'seterr A 1', 'parse_buf A ' + enc(text), 'note lookups',
                 'errno 34',        # whatever errno an earlier, unrelated conversion left behind (ERANGE): the answer does not depend on it
                 'getopt A ' + enc(path), 'getsec A ' + enc(path), 'get A %s int 0' % enc(path), 'get A %s size 0' % enc(path)])


def write_case(tid, path, which):
    sch, text, flags = TREES[tid]
    op = {'set': 'setint A %s 77' % enc(path), 'rm': 'rmsec A %s' % enc(path)}[which]
    return Case(['init A %s %d' % (tid, flags), 'parse_buf A ' + enc(text), 'note update', 'errno 34', op, 'dump A 0'])


def run_paths(st, drv, tid, paths, label):
    sch, text, flags = TREES[tid]
    base = model_tree(tid)
    cases, metas = [], []
    for path in paths:
        ro, rs = expectations(base, path)
        cases.append(read_case(tid, path))
        metas.append(('read', path, ro, rs))
        if ro != UNSPEC:
            cases.append(write_case(tid, path, 'set'))
            metas.append(('set', path, ro, rs))
        if rs != UNSPEC:
            cases.append(write_case(tid, path, 'rm'))
            metas.append(('rm', path, ro, rs))
    results = drv.run(cases)
    for c, r, (kind, path, ro, rs) in zip(cases, results, metas):
        st.evaluations += 1
        st.transitions += 1
        script = 'schema %s %s\n%s' % (tid, sch.spec(), c.script())
        if r.status in ('crash', 'hang'):
            st.violation('%s:%s' % (r.status, engine.sanitizer_summary(r.info)), script, 'an answer within the horizon', engine.excerpt(r.info))
            continue
        if kind == 'read':
            g1, g2 = r.first('r getopt '), r.first('r getsec ')
            gets = r.all('r get ')
            st.outcome('%s %s' % (g1, g2))
            if g1 is None or g2 is None or len(gets) != 2:
                st.violation('protocol', script, '', r.text()[-300:])
                continue
            if ro == UNSPEC:
                st.unspec += 1
            else:
                st.validated += 1
                want = 'r getopt ' + (ro[1] if ro != NOTFOUND else 'NULL')
                if g1 != want:
                    st.violation('getopt:%s' % label, script, want, g1)
                    continue
                # typed getter and size through the same path
                if ro != NOTFOUND and ro[2].decl.kind == 'int':
                    o = ro[2]
                    wv = 'r get %d' % (o.values[0] if o.values else 0)
                    ws = 'r get %d' % len(o.values)
                    if gets[0] != wv or gets[1] != ws:
                        st.violation('getter:%s' % label, script, wv + ' / ' + ws, gets[0] + ' / ' + gets[1])
                        continue
                elif ro == NOTFOUND and (gets[0] != 'r get 0' or gets[1] != 'r get 0'):
                    st.violation('getter-on-unresolvable:%s' % label, script, 'r get 0', gets[0] + ' / ' + gets[1])
                    continue
                st.nontriv(path if ro != NOTFOUND else b'')
            if rs == UNSPEC:
                st.unspec += 1
            else:
                st.validated += 1
                want = 'r getsec ' + (rs[1] if rs != NOTFOUND else 'NULL')
                if g2 != want:
                    st.violation('getsec:%s' % label, script, want, g2)
                    continue
        else:
            st.validated += 1
            after = copy.deepcopy(base)
            if kind == 'set':
                res = refpath.resolve(after, path, 'opt')
                ok = res != NOTFOUND and res[2].decl.kind == 'int'
                if ok:
                    o = res[2]
                    if o.pristine:
                        o.values = []
                        o.pristine = False
                    if o.values:
                        o.values[0] = 77
                    else:
                        o.values.append(77)
                want_rc = 'r setint %d' % (0 if ok else -1)
                got_rc = r.first('r setint')
            else:
                res = refpath.resolve(after, path, 'sec')
                ok = res != NOTFOUND
                # a path that ends in a single section removes its one instance, exactly as the single-level remover does on the
                # option reached by the walk (cfg_opt_rmnsec(opt, 0))
                if ok:
                    res[3].values.remove(res[2])
                want_rc = 'r rmsec %d' % (0 if ok else -1)
                got_rc = r.first('r rmsec')
            want_dump = 'dump ' + dump_sec(after, 0)
            got_dump = r.first('dump ')
            st.outcome('%s %s' % (got_rc, got_dump))
            if got_rc != want_rc:
                st.violation('%s-rc:%s' % (kind, label), script, want_rc, got_rc or 'none')
            elif got_dump != want_dump:
                st.violation('%s-effect:%s' % (kind, label), script, want_dump, got_dump or 'none')
        if len(st.samples) < 1 and kind == 'read' and ro not in (NOTFOUND, UNSPEC) and b'=' in path:
            st.samples.append({'tree': tid, 'path': path.decode('latin-1'), 'expected_address': ro[1]})


def shard_tree(sh):
    tid, paths, label, deadline = sh
    drv = get_driver('asan')
    drv.define_schema(tid, TREES[tid][0].spec())
    st = ShardStats(label)
    for ch in engine.chunks(paths, 150):
        run_paths(st, drv, tid, ch, label)
        if time.time() > deadline:
            st.complete = False
            break
    return st.result([drv])


def shard_strings(sh):
    tid, alpha, lo, hi, prefix, deadline = sh
    drv = get_driver('asan')
    drv.define_schema(tid, TREES[tid][0].spec())
    st = ShardStats('strings <= %d' % hi)
    buf = []
    for n in range(max(lo, len(prefix)), hi + 1):
        for tail in itertools.product(alpha, repeat=n - len(prefix)):
            buf.append(b''.join(prefix) + b''.join(tail))
            if len(buf) >= 150:
                run_paths(st, drv, tid, buf, 'string')
                buf = []
        if time.time() > deadline:
            st.complete = False
            break
    if buf:
        run_paths(st, drv, tid, buf, 'string')
    return st.result([drv])


def main():
    ck = engine.Check(PID)
    if ck.replay:
        engine.replay_file(ck.replay)
        return
    engine.build(['asan'])
    quick = ck.tier == 'quick'
    dl = ck.deadline
    shards, npaths = [], 0
    for tid in TREES:
        paths = all_paths(model_tree(tid))
        npaths += len(paths)
        for ch in engine.chunks(paths, 60):
            shards.append((tid, ch, 'well-formed', dl))
    engine.phase(ck, 'every option and section x every qualifier form', shard_tree, shards, trees=len(TREES), paths=npaths)
    shards, nd = [], 0
    for tid in TREES:
        paths = all_paths(model_tree(tid))
        broken = set()
        for p in paths:
            broken.update(defects(p))
        broken = sorted(broken - set(paths))
        nd += len(broken)
        for ch in engine.chunks(broken, 80):
            shards.append((tid, ch, '1-defect', dl))
    engine.phase(ck, 'every path with one injected defect', shard_tree, shards, paths=nd)
    alpha = [b'a', b'm', b'|', b'=', b"'", b'\\', b'0', b'1']
    L = 5 if quick else 6
    shards = [('T2', alpha, 0, 2, (), dl)] + [('T2', alpha, 3, L, (a, b), dl) for a in alpha for b in alpha]
    engine.phase(ck, 'all strings of length <= %d over the path alphabet (termination of the tokenizer)' % L, shard_strings, shards, alphabet=len(alpha))
    if True:
        shards, nd = [], 0
        for tid in TREES:
            paths = all_paths(model_tree(tid))
            one = set()
            for p in paths:
                one.update(defects(p))
            two = set()
            for p in sorted(one)[:(600 if quick else 100000)]:
                two.update(defects(p))
            two = sorted(two - one - set(paths))
            nd += len(two)
            for ch in engine.chunks(two, 200):
                shards.append((tid, ch, '2-defects', dl))
        engine.phase(ck, 'paths with two injected defects', shard_tree, shards, paths=nd)
    ck.assumptions = ['UNSPEC paths (duplicated separators in the middle, non-decimal index spellings, text glued to a closing quote, a quoted '
                      'index) are executed but not compared']
    ck.finish('paths enumerated from the tree (every option x every qualifier form) and their systematically broken variants, short strings over '
              'the path alphabet; three cases per path (lookups, by-path setter, by-path remove); non-trivial = distinct resolving paths')


if __name__ == '__main__':
    main()
