"""reftext.py - reference meaning of a whole text: reflex (bytes -> tokens) + RefParser
(tokens -> store).  Used by C03, C05, C06, C12, C13, C15."""
from model import RefParser, new_store, Tok, ACCEPT, REJECT, INCOMPLETE, UNSPEC
import reflex

MAX_INCLUDE_DEPTH = 10


class Files:
    """file model for include(): name -> content for regular files, a set of directories,
    an optional resolver (C17's refresolve) mapping the written name to the resolved name"""

    def __init__(self, files=None, dirs=(), resolver=None, env=None):
        self.files = files or {}
        self.dirs = set(dirs)
        self.resolver = resolver
        self.env = env or {}

    def include(self, args, tok):
        if len(args) != 1:
            return (REJECT, 'wrong number of arguments to include')
        if tok.depth >= MAX_INCLUDE_DEPTH:
            return (REJECT, 'includes nested too deeply')
        name = args[0]
        if b'\0' in name:
            return (UNSPEC, 'NUL in file name')
        rname = self.resolver(name) if self.resolver else name
        if rname is None or rname in self.dirs or rname not in self.files:
            return (REJECT, 'include target missing, unreadable or a directory')
        lx = reflex.lex(self.files[rname], self.env)
        toks = lx.toks
        for t in toks:
            t.file = rname
            t.depth = tok.depth + 1
        if lx.status == 'REJECT':
            toks = toks + [Tok('X', lx.why.encode('latin-1'), lx.line, lx.line, rname, tok.depth + 1)]
        elif lx.status == 'UNSPEC':
            toks = toks + [Tok('U', lx.why.encode('latin-1'), lx.line, lx.line, rname, tok.depth + 1)]
        return toks


class TextResult:
    __slots__ = ('verdict', 'store', 'lex', 'res', 'why', 'err_line', 'err_lines', 'err_file', 'toks')


def meaning(schema, ctxflags, data, env=None, store=None, files=None, cb_fail=0):
    """-> TextResult; verdict in ACCEPT / REJECT / UNSPEC (INCOMPLETE is folded into REJECT:
    the text as given is rejected).  err_lines = (lo, hi) range of acceptable lines for the
    diagnostic that accompanies a rejection (None when not determined)."""
    lx = reflex.lex(data, env)
    st = store if store is not None else new_store(schema, ctxflags)
    if files is not None:
        files.env = env or {}
    p = RefParser(ctxflags, include=files.include if files is not None else None, cb_fail=cb_fail)
    res = p.parse(st, lx.toks)
    toks = p.toks     # with included files spliced in
    t = TextResult()
    t.store, t.lex, t.res = st, lx, res
    t.toks = toks
    t.why = res.why
    t.err_lines = None
    t.err_file = None
    if lx.status == 'OK':
        if res.verdict == ACCEPT:
            t.verdict = ACCEPT
        elif res.verdict == UNSPEC:
            t.verdict = UNSPEC
        else:
            t.verdict = REJECT
            if res.verdict == INCOMPLETE:
                t.err_lines = (lx.line, lx.line)           # premature end: the line the input ends on
            elif res.at < len(toks):
                tk = toks[res.at]
                t.err_file = tk.file
                t.err_lines = (tk.eline, tk.eline)         # the offending token's last line
                if res.why in ('duplicate title', 'parse callback failed', 'validation callback failed',
                               'function callback failed', 'wrong number of arguments to include', 'includes nested too deeply',
                               'include target missing, unreadable or a directory'):
                    first = toks[res.start] if res.start is not None else tk
                    t.err_lines = (min(first.line, tk.eline), tk.eline)
    else:
        # the scanner stops in the middle: everything before that point has been parsed
        if res.verdict == REJECT:
            t.verdict = REJECT
            tk = toks[res.at] if res.at < len(toks) else None
            if tk is not None:
                t.err_file = tk.file
                t.err_lines = (tk.eline, tk.eline)
        elif res.verdict == UNSPEC or lx.status == 'UNSPEC':
            t.verdict = UNSPEC
            t.why = lx.why or res.why
        else:
            t.verdict = REJECT
            t.why = lx.why
            t.err_lines = (lx.line, lx.line)
    return t
