"""reftext.py - reference meaning of a whole text: reflex (bytes -> tokens) + RefParser
(tokens -> store).  Used by C03, C05, C06, C12, C13, C15."""
from model import RefParser, new_store, ACCEPT, REJECT, INCOMPLETE, UNSPEC
import reflex


class TextResult:
    __slots__ = ('verdict', 'store', 'lex', 'res', 'why', 'err_line', 'err_lines')


def meaning(schema, ctxflags, data, env=None, store=None, include=None, cb_fail=0):
    """-> TextResult; verdict in ACCEPT / REJECT / UNSPEC (INCOMPLETE is folded into REJECT:
    the text as given is rejected).  err_lines = (lo, hi) range of acceptable lines for the
    diagnostic that accompanies a rejection (None when not determined)."""
    lx = reflex.lex(data, env)
    st = store if store is not None else new_store(schema, ctxflags)
    p = RefParser(ctxflags, include=include, cb_fail=cb_fail)
    res = p.parse(st, lx.toks)
    t = TextResult()
    t.store, t.lex, t.res = st, lx, res
    t.why = res.why
    t.err_lines = None
    if lx.status == 'OK':
        if res.verdict == ACCEPT:
            t.verdict = ACCEPT
        elif res.verdict == UNSPEC:
            t.verdict = UNSPEC
        else:
            t.verdict = REJECT
            if res.verdict == INCOMPLETE:
                t.err_lines = (lx.line, lx.line)           # premature end: the line the input ends on
            elif res.at < len(lx.toks):
                tk = lx.toks[res.at]
                t.err_lines = (tk.eline, tk.eline)         # the offending token's last line
                if res.why in ('duplicate title', 'parse callback failed', 'validation callback failed',
                               'function callback failed'):
                    t.err_lines = (lx.toks[max(0, res.at - 3)].line, tk.eline)
    else:
        # the scanner stops in the middle: everything before that point has been parsed
        if res.verdict == REJECT:
            t.verdict = REJECT
            tk = lx.toks[res.at] if res.at < len(lx.toks) else None
            if tk is not None:
                t.err_lines = (tk.eline, tk.eline)
        elif res.verdict == UNSPEC or lx.status == 'UNSPEC':
            t.verdict = UNSPEC
            t.why = lx.why or res.why
        else:
            t.verdict = REJECT
            t.why = lx.why
            t.err_lines = (lx.line, lx.line)
    return t
