"""reflex.py - hand-written reference scanner for the lexical forms of the
configuration language (C03 / C06 / C15).  Not a transcription of the flex rules.

lex(data, env) -> LexResult
    .status   'OK' | 'REJECT' | 'UNSPEC'
    .toks     list of model.Tok (kinds: 'S' string, 'C' comment, punctuation { } ( ) = + ,)
              with the line on which each token starts (.line) and ends (.eline)
    .line     line reached at the end of the input (or at the point of rejection)
    .why      short reason for REJECT / UNSPEC
Lines are counted from 1; every LF counts exactly once wherever it occurs.
"""
from model import Tok

WS = b' \t'
DELIMS = set(b' \t\n\r#"\'={}()+,*')
ESC = {ord('n'): 0x0A, ord('t'): 0x09, ord('r'): 0x0D, ord('b'): 0x08, ord('f'): 0x0C,
       ord('a'): 0x07, ord('e'): 0x1B, ord('v'): 0x0B}
OCT = set(b'01234567')
DIG = set(b'0123456789')
HEX = set(b'0123456789abcdefABCDEF')
SPACE = set(b' \t\n\v\f\r')
CR_IS_BLANK = False      # a carriage return between tokens: unspecified by default (the statements are silent), white space on request


class LexResult:
    __slots__ = ('status', 'toks', 'line', 'why')

    def __init__(self):
        self.status = 'OK'
        self.toks = []
        self.line = 1
        self.why = ''


class _Unspec(Exception):
    pass


class _Reject(Exception):
    pass


def trim(b):
    i, j = 0, len(b)
    while i < j and b[i] in SPACE:
        i += 1
    while j > i and b[j - 1] in SPACE:
        j -= 1
    return b[i:j]


def _env(data, i, env, in_dq):
    """data[i:i+2] == b'${' ; returns (value, next index) or raises _Unspec; None if no closing brace"""
    j = data.find(b'}', i + 2)
    if j < 0:
        return None
    inner = data[i + 2:j]
    if b'"' in inner or b'\\' in inner or b'\0' in inner or b"'" in inner:
        raise _Unspec('${...} spanning a quote or backslash')
    k = inner.find(b':')
    if k >= 0:
        if inner[k + 1:k + 2] != b'-':
            raise _Unspec("variable name containing ':' not followed by '-'")
        name, dflt = inner[:k], inner[k + 2:]
    else:
        name, dflt = inner, None
    if b'=' in name or not name:
        raise _Unspec('odd variable name')
    v = env.get(name)
    if v is None:
        v = dflt if dflt is not None else b''
    return (v, j + 1)


def lex(data, env=None):
    env = env or {}
    r = LexResult()
    toks = r.toks
    i, n, line = 0, len(data), 1
    try:
        if b'\0' in data:
            raise _Unspec('NUL byte in the input')
        while i < n:
            c = data[i]
            if c == 0x20 or c == 0x09:
                i += 1
                continue
            if c == 0x0A:
                line += 1
                i += 1
                continue
            if c == 0x0D:
                if CR_IS_BLANK:
                    i += 1          # a check that only needs the line count (C06: "every newline once") reads CR LF line ends this way
                    continue
                raise _Unspec('carriage return')
            if c == 0x23 or (c == 0x2F and data[i + 1:i + 2] == b'/'):   # '#' or '//'
                j = data.find(b'\n', i)
                if j < 0:
                    j = n
                body = data[i:j]
                k = 0
                while k < len(body) and body[k] == c:
                    k += 1
                toks.append(Tok('C', trim(body[k:]), line, line))
                i = j
                continue
            if c == 0x2F and data[i + 1:i + 2] == b'*':   # block comment
                start = line
                j = i + 2
                end = -1
                while j < n:
                    if data[j] == 0x2A:
                        k = j
                        while k < n and data[k] == 0x2A:
                            k += 1
                        if k < n and data[k] == 0x2F:
                            end = k + 1
                            break
                        j = k
                        continue
                    if data[j] == 0x0A:
                        line += 1
                    j += 1
                if end < 0:
                    r.line = line
                    raise _Reject('unterminated comment')          # a text that ends inside a comment is not in the language
                body = data[i + 2:j]
                toks.append(Tok('C', trim(body), start, line))
                i = end
                continue
            if c in b'{}()=,':
                toks.append(Tok(chr(c), b'', line, line))
                i += 1
                continue
            if c == 0x2B:   # '+'
                if data[i + 1:i + 2] == b'=':
                    toks.append(Tok('+', b'', line, line))
                    i += 2
                    continue
                raise _Unspec("lone '+'")
            if c == 0x2A:
                raise _Unspec("'*' outside a comment")
            if c == 0x22:   # double-quoted string
                start = line
                out = bytearray()
                i += 1
                while True:
                    if i >= n:
                        r.line = line
                        raise _Reject('unterminated double-quoted string')
                    c = data[i]
                    if c == 0x22:
                        i += 1
                        break
                    if c == 0x0A:
                        out.append(0x0A)
                        line += 1
                        i += 1
                        continue
                    if c == 0x24 and data[i + 1:i + 2] == b'{':
                        e = _env(data, i, env, True)
                        if e is not None:
                            out += e[0]
                            line += data[i:e[1]].count(b'\n')      # the braces may span lines: every newline counts once
                            i = e[1]
                            continue
                        out.append(c)
                        i += 1
                        continue
                    if c != 0x5C:
                        out.append(c)
                        i += 1
                        continue
                    # backslash
                    if i + 1 >= n:
                        r.line = line
                        raise _Reject('unterminated double-quoted string (backslash at end of input)')
                    d = data[i + 1]
                    if d == 0x0A:
                        line += 1
                        i += 2
                        continue
                    if d in DIG:
                        j = i + 1
                        while j < n and data[j] in DIG:
                            j += 1
                        run = data[i + 1:j]
                        if len(run) <= 3 and all(x in OCT for x in run) and int(run, 8) <= 0xFF:
                            v = int(run, 8)
                            if v == 0:
                                raise _Unspec('escape producing a NUL byte')
                            out.append(v)
                            i = j
                            continue
                        r.line = line
                        raise _Reject('invalid octal / bad escape sequence')
                    if d == 0x78 and i + 2 < n and data[i + 2] in HEX:   # \x
                        j = i + 2
                        if j + 1 < n and data[j + 1] in HEX:
                            j += 1
                        v = int(data[i + 2:j + 1], 16)
                        if v == 0:
                            raise _Unspec('escape producing a NUL byte')
                        out.append(v)
                        i = j + 1
                        continue
                    if d in ESC:
                        out.append(ESC[d])
                        i += 2
                        continue
                    out.append(d)
                    i += 2
                toks.append(Tok('S', bytes(out), start, line))
                continue
            if c == 0x27:   # single-quoted string
                start = line
                out = bytearray()
                i += 1
                while True:
                    if i >= n:
                        r.line = line
                        raise _Reject('unterminated single-quoted string')
                    c = data[i]
                    if c == 0x27:
                        i += 1
                        break
                    if c == 0x0A:
                        out.append(0x0A)
                        line += 1
                        i += 1
                        continue
                    if c != 0x5C:
                        out.append(c)
                        i += 1
                        continue
                    if i + 1 >= n:
                        r.line = line
                        raise _Reject('unterminated single-quoted string')
                    d = data[i + 1]
                    if d == 0x0A:
                        line += 1
                    elif d == 0x27 or d == 0x5C:
                        out.append(d)
                    else:
                        out.append(0x5C)
                        out.append(d)
                    i += 2
                toks.append(Tok('S', bytes(out), start, line))
                continue
            if c == 0x24 and data[i + 1:i + 2] == b'{':
                e = _env(data, i, env, False)
                if e is not None:
                    nl = data[i:e[1]].count(b'\n')
                    toks.append(Tok('S', e[0], line, line + nl))
                    line += nl
                    i = e[1]
                    continue
            # unquoted word
            j = i
            while j < n and data[j] not in DELIMS:
                j += 1
            if j == i:
                raise _Unspec('byte only the catch-all rule consumes')
            word = data[i:j]
            if word.endswith(b'$') and data[j:j + 1] == b'{':
                raise _Unspec("'${' in the middle of an unquoted word")
            if j < n and data[j] == 0x2A and word.endswith(b'/'):
                raise _Unspec("'/*' in the middle of an unquoted word")
            toks.append(Tok('S', word, line, line))
            i = j
        r.line = line
    except _Unspec as e:
        r.status = 'UNSPEC'
        r.why = str(e)
        if r.line < line:
            r.line = line
    except _Reject as e:
        r.status = 'REJECT'
        r.why = str(e)
        r.line = line
    return r
